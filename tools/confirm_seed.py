#!/usr/bin/env python3
"""confirm_seed.py <worktree> <variant A|B> <seed-name>
Independently confirms a sub-agent's seeded change in its scratch worktree:
 (1) demo passes on the clean checkout, (2) demo fails with the patch, (3) workspace builds and the
 full existing suite passes with the patch (demo removed). On success copies patch.diff, the demo
 and a meta.json into /verif/seeded/<seed-name>/."""
import json, os, re, shutil, subprocess, sys
wt, var, name = sys.argv[1], sys.argv[2], sys.argv[3]
out = os.path.join(wt, "out", var)
readme = open(os.path.join(out, "demo", "README.md")).read()
meta = json.load(open(os.path.join(out, "meta.json")))
env = dict(os.environ, CARGO_NET_OFFLINE="true")
def sh(cmd, **kw):
    return subprocess.run(cmd, shell=True, cwd=wt, env=env, capture_output=True, text=True, **kw)
def clean():
    sh("git checkout -- . && git clean -fdq -e out -e target")
clean()
# demo placement: every `cp <src> <dst>` line of the README
cps = re.findall(r"^\s*cp\s+(\S+)\s+(\S+)\s*$", readme, re.M)
cargo = [l.strip() for l in readme.splitlines() if l.strip().startswith("cargo ") and (" test" in l or "nextest" in l)]
if not cps or not cargo:
    print("cannot parse README", cps, cargo); sys.exit(2)
demo_cmd = cargo[0]
if "--offline" not in demo_cmd: demo_cmd += " --offline"
placed = []
def place():
    for src, dst in cps:
        src = src if os.path.isabs(src) else os.path.join(wt, src)
        dstp = dst if os.path.isabs(dst) else os.path.join(wt, dst)
        if dstp.endswith("/") or os.path.isdir(dstp): dstp = os.path.join(dstp, os.path.basename(src))
        os.makedirs(os.path.dirname(dstp), exist_ok=True)
        shutil.copy(src, dstp); placed.append(dstp)
def unplace():
    for p in placed:
        if os.path.exists(p): os.remove(p)
ran = []
place()
r1 = sh(demo_cmd); ran.append({"cmd": demo_cmd, "state": "clean checkout + demo", "rc": r1.returncode})
ok1 = r1.returncode == 0
r = sh(f"git apply {out}/patch.diff"); 
if r.returncode != 0: print("patch does not apply", r.stderr); sys.exit(2)
r2 = sh(demo_cmd); ran.append({"cmd": demo_cmd, "state": "patched + demo", "rc": r2.returncode, "tail": (r2.stdout + r2.stderr)[-1500:]})
ok2 = r2.returncode != 0 and ("test result: FAILED" in (r2.stdout+r2.stderr) or "FAIL" in (r2.stdout+r2.stderr) or "failed" in (r2.stdout+r2.stderr))
unplace()
b = sh("cargo build --workspace --offline"); ran.append({"cmd": "cargo build --workspace --offline", "state": "patched", "rc": b.returncode})
full = "cargo nextest run --workspace --no-fail-fast --offline --test-threads 8"
r3 = sh(full); tail = (r3.stdout + r3.stderr)[-600:]
m = re.search(r"(\d+) tests run: (\d+) passed", r3.stdout + r3.stderr)
ran.append({"cmd": full, "state": "patched, demo removed", "rc": r3.returncode, "summary": m.group(0) if m else tail})
ok3 = b.returncode == 0 and r3.returncode == 0 and m and m.group(1) == m.group(2) == "419"
clean()
verdict = ok1 and ok2 and ok3
print(name, "demo_clean_pass=%s demo_patched_fail=%s suite_pass=%s" % (ok1, ok2, bool(ok3)))
if verdict:
    d = os.path.join("/verif/seeded", name)
    os.makedirs(d, exist_ok=True)
    shutil.copy(os.path.join(out, "patch.diff"), d)
    shutil.copytree(os.path.join(out, "demo"), os.path.join(d, "demo"), dirs_exist_ok=True)
    json.dump({"property": meta.get("property"), "breaks": meta.get("summary"),
               "needs_to_manifest": meta.get("needs_to_manifest"), "files_changed": meta.get("files_changed"),
               "author": "independent sub-agent given only the property text and a scratch worktree",
               "confirmed_by_me": ran, "demo_command": demo_cmd,
               "demo_placement": [list(c) for c in cps], "detected_by": []},
              open(os.path.join(d, "meta.json"), "w"), indent=1)
sys.exit(0 if verdict else 1)
