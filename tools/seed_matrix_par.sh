#!/bin/bash
# tools/seed_matrix_par.sh [-j N] [-t tier] [names...]
# Parallel variant of seed_matrix.sh that never touches /repo's working tree: every seeded change
# gets a scratch area /tmp/vsm/<name>/{repo,verif} (a detached git worktree of /repo's HEAD with
# the patch applied, and a copy of the harness whose path dependencies point at that worktree),
# its own cargo target directory, and the quick check(s) of the property it breaks run there with
# VERIF_ROOT / VERIF_REPO set. Scratch areas are removed as soon as a change has been judged.
# Prints DETECTED / MISSED / ERROR per change and records the result in seeded/<name>/meta.json.
jobs=4; tier=quick
if [ "$1" = "--one" ]; then ONE="$2"; ONETIER="$3"; shift 3; fi
while [ $# -gt 0 ]; do
  case "$1" in -j) jobs="$2"; shift 2;; -t) tier="$2"; shift 2;; *) break;; esac
done
cd /verif || exit 2
names="$@"
[ -z "$names" ] && names=$(ls seeded | grep -E '^C[0-9]+-[A-Z]$')
base=/tmp/vsm
mkdir -p $base
one() {
  n="$1"; tier="$2"; base=/tmp/vsm
  prop=$(echo "$n" | cut -d- -f1)
  extra=""
  case "$n" in C20-B) extra="C16";; C04-B|C05-B) extra="C06";; esac
  [ -f /verif/seeded/$n/also_checks ] && extra="$extra $(cat /verif/seeded/$n/also_checks)"
  d=$base/$n
  rm -rf "$d"; git -C /repo worktree prune
  mkdir -p "$d/verif"
  if ! git -C /repo worktree add --detach "$d/repo" HEAD >/dev/null 2>&1; then echo "ERROR    $n: worktree"; return; fi
  if ! git -C "$d/repo" apply /verif/seeded/$n/patch.diff; then
    echo "ERROR    $n: patch does not apply"
    git -C /repo worktree remove --force "$d/repo"; rm -rf "$d"; return
  fi
  cp -r /verif/harness /verif/known_findings.json /verif/tools "$d/verif/"
  sed -i "s#\"/repo/#\"$d/repo/#" "$d/verif/harness/Cargo.toml"
  mkdir -p "$d/verif/evidence" "$d/verif/replays" "$d/verif/target"
  # reuse the compiled registry dependencies of /verif/target (the repo crates are rebuilt: their paths differ)
  [ -d /verif/target/verif ] && cp -a --reflink=auto /verif/target/verif "$d/verif/target/" 2>/dev/null
  [ -d /verif/target/corpus ] && cp -a --reflink=auto /verif/target/corpus "$d/verif/target/" 2>/dev/null
  export VERIF_ROOT="$d/verif" VERIF_REPO="$d/repo" CARGO_TARGET_DIR="$d/verif/target" CARGO_NET_OFFLINE=true
  if ! (cd "$d/verif/harness" && cargo build --profile verif --offline -j 6 >"$d/build.log" 2>&1); then
    echo "ERROR    $n: harness build failed: $(grep -m3 '^error' "$d/build.log" | tr '\n' ' ')"
  else
    for id in $prop $extra; do
      out=$("$d/verif/target/verif/vcheck" "$id" --tier "$tier" 2>&1); rc=$?
      case $rc in
        1) echo "DETECTED $n $id: $(echo "$out" | grep -m1 'violation \[' | cut -c1-220)";;
        0) echo "MISSED   $n $id";;
        *) echo "ERROR    $n $id rc=$rc: $(echo "$out" | tail -n 2 | tr '\n' ' ' | cut -c1-220)";;
      esac
    done
  fi
  git -C /repo worktree remove --force "$d/repo" >/dev/null 2>&1
  rm -rf "$d"
}
if [ -n "$ONE" ]; then one "$ONE" "$ONETIER"; exit 0; fi
res=$base/results-$$.txt
: > "$res"
printf '%s\n' $names | xargs -P "$jobs" -I{} "$0" --one {} "$tier" | tee "$res"
python3 - "$res" "$tier" <<'PY'
import json,sys,re,collections
res,tier=sys.argv[1],sys.argv[2]
by=collections.defaultdict(lambda: {"det":[],"miss":[],"err":[]})
for line in open(res):
    mm=re.match(r'(DETECTED|MISSED|ERROR)\s+(C\d+-[A-Z])\s*(C\d+)?:?\s*(.*)',line)
    if not mm: continue
    kind,n,chk,rest=mm.groups()
    if kind=='DETECTED':
        sig=re.search(r'violation \[([^\]]*)\]',rest)
        by[n]["det"].append({"check":chk,"tier":tier,"signature":sig.group(1) if sig else ""})
    elif kind=='MISSED': by[n]["miss"].append(chk)
    else: by[n]["err"].append(rest.strip())
for n,r in by.items():
    if r["err"] and not r["det"]: continue
    p='/verif/seeded/%s/meta.json'%n
    m=json.load(open(p))
    if tier=='quick' or r["det"]:
        old=[d for d in m.get('detected_by',[]) if d.get('tier')!=tier]
        m['detected_by']=old+r["det"]
        m['missed_by']=r["miss"]
        json.dump(m,open(p,'w'),indent=1)
print("summary: detected=%d missed=%d error=%d"%(sum(1 for r in by.values() if r["det"]),sum(1 for r in by.values() if not r["det"] and not r["err"]),sum(1 for r in by.values() if r["err"] and not r["det"])))
PY
rm -f "$res"
