#!/usr/bin/env python3
"""Writes /verif/MANIFEST.json from the table below (single source of truth for the interface)."""
import json, os, subprocess
ROOT = os.path.dirname(os.path.dirname(os.path.abspath(__file__)))

# id -> (engine, category, level text, level note, technique, design_ref)
CLAIMED = {
 "C01": ("codec-lab", "exploration",
   "Runtime differential monitoring of the real value codec against an independent reference codec over generated value trees (all 43 kinds, boundary integers, depths 1..40, both epochs and per-container mixes), plus 100k-deep chains on a 256 KiB stack in a child process. Held on the executions observed; a sampled universal claim, which is the right level for an input-quantified codec property without proof tooling in this family.",
   "Trusts the harness reference codec (cross-checked in both directions on every case) and rustc; profile = release + debug-assertions + overflow-checks.",
   "runtime differential oracle (reference codec) + panic/abort monitor", "DESIGN.md §3 C01"),
 "C07": ("codec-lab", "exploration",
   "Runtime monitoring of every public entry point that reads untrusted value bytes (decode, kind, len+skip, split-off, prefix measurement, unknown-field and unknown-variant capture and re-serialization) under a panic monitor, a peak-allocation monitor and an address-space limit, compared against an independent reference decoder/skipper on random, valid, mutated, truncated and hostile-length inputs. Held on the inputs observed.",
   "Trusts the harness reference skipper as the definition of acceptance (error kinds are not compared); aborts are attributed through per-case progress files of child processes.",
   "runtime differential oracle + panic/allocation/abort monitors", "DESIGN.md §3 C07"),
 "C13": ("codec-lab", "exploration",
   "Runtime monitoring of SerializedValueSlice::convert, SerializedValue::convert and MessageOps::convert_value (all 14 payload-carrying kinds) over reference encodings (both epochs, mixed, non-minimal) and malformed inputs for version pairs in and around 1.14..1.20; oracle = reference skipper (well-formedness), reference kind scanner (no 1.20 container kind left), reference and real decode (same meaning), byte-identity for same/newer epoch, idempotence. Held on the inputs observed.",
   "Trusts the harness reference codec; conversion of ill-formed input that succeeds is recorded, not judged (the statement does not constrain it).",
   "runtime differential + metamorphic oracle (idempotence, identity)", "DESIGN.md §3 C13"),
 "C08": ("codec-lab", "exploration",
   "Runtime monitoring of MessageOps::serialize_message / deserialize_message on messages of all 63 kinds produced by upstream's own Arbitrary derive (coverage-gated on kinds and enum alternatives), with a valid-frame oracle (prefix, kind byte, equality, payload identity) and metamorphic strictness oracles (all truncations, appended bytes, wrong prefixes, unknown kinds, per-byte sweeps, random mutants: no panic, accepted frames have a matching prefix and re-serialize to an equal message). Held on the messages and mutants observed.",
   "No second message parser: strictness is decided by metamorphic relations; a field-level leniency that maps a mutant to the same message as another frame is only visible through the re-serialization relation.",
   "runtime round-trip + metamorphic strictness oracle, panic monitor", "DESIGN.md §3 C08"),
 "C14": ("codec-lab", "exploration",
   "Runtime monitoring of Packetizer (both input interfaces, random chunkings down to single bytes, frames 5 B..5 MiB, eager/lazy/late draining) against a shadow byte counter, of two real TokioTransports over a scripted AsyncRead+AsyncWrite (short reads/writes, Pending, Ok(0), errors) and of Buffered<T> over a scripted inner transport: order, exactly-once, completeness at flush, back-pressure boundary, EOF and zero-write errors. Held on the schedules observed.",
   "Scripted I/O replaces the OS; Pending is followed by a spurious re-poll; ASan/Miri slices of this workload are part of the thorough tier when those tools start.",
   "runtime shadow-state oracle over scripted I/O schedules, panic monitor", "DESIGN.md §3 C14"),
}

def main():
    props = [json.loads(l) for l in open(os.path.join(ROOT, "properties.jsonl"))]
    checks = []
    na = []
    for p in props:
        pid = p["id"]
        if pid in CLAIMED:
            eng, cat, text, note, tech, ref = CLAIMED[pid]
            checks.append({
                "property_id": pid,
                "quick_cmd": f"./check {pid} --tier quick",
                "thorough_cmd": f"./check {pid} --tier thorough",
                "evidence_file": f"/verif/evidence/{pid}.json",
                "replay_cmd_template": f"./check {pid} --replay {{path}}",
                "engine": eng,
                "level_claimed": {"category": cat, "text": text, "design_ref": ref},
                "level_note": note,
                "technique": tech,
            })
        else:
            na.append({"property_id": pid, "reason": NOT_YET.get(pid, "monitor for this property is designed (DESIGN.md) but not built yet; runtime monitoring applies, nothing is claimed until the check exists")})
    hook_commits = subprocess.run(["git", "-C", "/repo", "log", "--format=%H", "--grep=^verif hooks"], capture_output=True, text=True).stdout.split()
    m = {
        "version": 1,
        "setup_cmd": "./setup",
        "hooks": {
            "guard": "cargo feature `verif-hooks` of crate aldrin-broker (off by default)",
            "enable": "the harness crate /verif/harness depends on aldrin-broker (path ../../repo/broker) with features [verif-hooks, statistics, introspection, channel]; ./check rebuilds it from /repo's working tree on every run",
            "baseline_off_cmd": "cd /repo && cargo nextest run --workspace --no-fail-fast --offline --test-threads 8 || cargo test --workspace --no-fail-fast --offline",
            "source_commits": hook_commits,
            "add_only": True,
        },
        "engines": ENGINES,
        "checks": checks,
        "notes": "Technique family: runtime monitoring and sanitizers only. Exit codes of every check: 0 held on what was observed (KNOWN-FINDING lines possible), 1 violation with `VIOLATION property=<id> replay=<path>`, 2 harness error / inconclusive (never with a VIOLATION line). Known findings: /verif/known_findings.json.",
        "not_applicable": na,
    }
    json.dump(m, open(os.path.join(ROOT, "MANIFEST.json"), "w"), indent=1)
    print("wrote MANIFEST.json:", len(checks), "checks,", len(na), "not claimed")

NOT_YET = {}
ENGINES = [
 {"name": "codec-lab", "path": "harness/src/codec", "serves_properties": ["C01", "C07", "C08", "C13", "C14"],
  "kind_free_text": "generators + independent reference encoder/decoder/skipper for the value wire format, byte mutators, counting allocator, panic capture; drives the real aldrin-core codec"},
]
if __name__ == "__main__":
    main()
