#!/usr/bin/env python3
"""Writes /verif/MANIFEST.json from the table below (single source of truth for the interface)."""
import json, os, subprocess
ROOT = os.path.dirname(os.path.dirname(os.path.abspath(__file__)))

# id -> (engine, category, level text, level note, technique, design_ref)
CLAIMED = {
 "C01": ("codec-lab", "exploration",
   "Runtime differential monitoring of the real value codec against an independent reference codec over generated value trees (all 43 kinds, boundary integers, depths 1..40, both epochs and per-container mixes), plus 100k-deep chains on a 256 KiB stack in a child process. Held on the executions observed; a sampled universal claim, which is the right level for an input-quantified codec property without proof tooling in this family.",
   "Trusts the harness reference codec (cross-checked in both directions on every case) and rustc; profile = release + debug-assertions + overflow-checks.",
   "runtime differential oracle (reference codec) + panic/abort monitor", "DESIGN.md §3 C01"),
 "C07": ("codec-lab", "exploration",
   "Runtime monitoring of every public entry point that reads untrusted value bytes (decode, kind, len+skip, split-off, prefix measurement, unknown-field and unknown-variant capture and re-serialization) under a panic monitor, a peak-allocation monitor and an address-space limit, compared against an independent reference decoder/skipper on random, valid, mutated, truncated and hostile-length inputs. Held on the inputs observed. Every third case decodes the bytes into one of 28 static Rust target types (MaybeUninit-backed [U; N] / [u8; N] arrays, std collections, tuples, Option, Result): accepted iff the reference value conforms to the target's shape, re-encoding gives the normal form, and a live counter on the element type shows that every constructed element is dropped exactly once, also when decoding fails half-way (leak / double drop / drop of an uninitialised slot); the Miri and ASan slices of the thorough tier run the same cases.",
   "Trusts the harness reference skipper as the definition of acceptance (error kinds are not compared); aborts are attributed through per-case progress files of child processes.",
   "runtime differential oracle + panic/allocation/abort monitors", "DESIGN.md §3 C07"),
 "C13": ("codec-lab", "exploration",
   "Runtime monitoring of SerializedValueSlice::convert, SerializedValue::convert and MessageOps::convert_value (all 14 payload-carrying kinds) over reference encodings (both epochs, mixed, non-minimal) and malformed inputs for version pairs in and around 1.14..1.20; oracle = reference skipper (well-formedness), reference kind scanner (no 1.20 container kind left), reference and real decode (same meaning), byte-identity for same/newer epoch, idempotence. Held on the inputs observed.",
   "Trusts the harness reference codec; conversion of ill-formed input that succeeds is recorded, not judged (the statement does not constrain it).",
   "runtime differential + metamorphic oracle (idempotence, identity)", "DESIGN.md §3 C13"),
 "C08": ("codec-lab", "exploration",
   "Runtime monitoring of MessageOps::serialize_message / deserialize_message on messages of all 63 kinds produced by upstream's own Arbitrary derive (coverage-gated on kinds and enum alternatives), with a valid-frame oracle (prefix, kind byte, equality, payload identity) and metamorphic strictness oracles (all truncations, appended bytes, wrong prefixes, unknown kinds, per-byte sweeps, random mutants: no panic, accepted frames have a matching prefix and re-serialize to an equal message). Held on the messages and mutants observed.",
   "No second message parser: strictness is decided by metamorphic relations; a field-level leniency that maps a mutant to the same message as another frame is only visible through the re-serialization relation.",
   "runtime round-trip + metamorphic strictness oracle, panic monitor", "DESIGN.md §3 C08"),
 "C14": ("codec-lab", "exploration",
   "Runtime monitoring of Packetizer (both input interfaces, random chunkings down to single bytes, frames 5 B..5 MiB, eager/lazy/late draining) against a shadow byte counter, of two real TokioTransports over a scripted AsyncRead+AsyncWrite (short reads/writes, Pending, Ok(0), errors) and of Buffered<T> over a scripted inner transport: order, exactly-once, completeness at flush, back-pressure boundary, EOF and zero-write errors. Held on the schedules observed.",
   "Scripted I/O replaces the OS; Pending is followed by a spurious re-poll; ASan/Miri slices of this workload are part of the thorough tier when those tools start.",
   "runtime shadow-state oracle over scripted I/O schedules, panic monitor", "DESIGN.md §3 C14"),
}

def main():
    props = [json.loads(l) for l in open(os.path.join(ROOT, "properties.jsonl"))]
    checks = []
    na = []
    for p in props:
        pid = p["id"]
        if pid in CLAIMED:
            eng, cat, text, note, tech, ref = CLAIMED[pid]
            checks.append({
                "property_id": pid,
                "quick_cmd": f"./check {pid} --tier quick",
                "thorough_cmd": f"./check {pid} --tier thorough",
                "evidence_file": f"/verif/evidence/{pid}.json",
                "replay_cmd_template": f"./check {pid} --replay {{path}}",
                "engine": eng,
                "level_claimed": {"category": cat, "text": text, "design_ref": ref},
                "level_note": note,
                "technique": tech,
            })
        else:
            na.append({"property_id": pid, "reason": NOT_YET.get(pid, "monitor for this property is designed (DESIGN.md) but not built yet; runtime monitoring applies, nothing is claimed until the check exists")})
    hook_commits = subprocess.run(["git", "-C", "/repo", "log", "--format=%H", "--grep=^verif hooks"], capture_output=True, text=True).stdout.split()
    m = {
        "version": 1,
        "setup_cmd": "./setup",
        "hooks": {
            "guard": "cargo feature `verif-hooks` of crate aldrin-broker (off by default)",
            "enable": "the harness crate /verif/harness depends on aldrin-broker (path ../../repo/broker) with features [verif-hooks, statistics, introspection, channel]; ./check rebuilds it from /repo's working tree on every run",
            "baseline_off_cmd": "cd /repo && cargo nextest run --workspace --no-fail-fast --offline --test-threads 8 || cargo test --workspace --no-fail-fast --offline",
            "source_commits": hook_commits,
            "add_only": True,
        },
        "engines": ENGINES,
        "checks": checks,
        "notes": "Technique family: runtime monitoring and sanitizers only. Exit codes of every check: 0 held on what was observed (KNOWN-FINDING lines possible), 1 violation with `VIOLATION property=<id> replay=<path>`, 2 harness error / inconclusive (never with a VIOLATION line). Known findings: /verif/known_findings.json.",
        "not_applicable": na,
    }
    json.dump(m, open(os.path.join(ROOT, "MANIFEST.json"), "w"), indent=1)
    print("wrote MANIFEST.json:", len(checks), "checks,", len(na), "not claimed")

NOT_YET = {"C16": "the monitor needs rustc on generated code (corpus crate + runner with a conformance relation); runtime monitoring applies and the design is in DESIGN.md, but the check is not built yet, so nothing is claimed"}
ENGINES = [
 {"name": "codec-lab", "path": "harness/src/codec", "serves_properties": ["C01", "C07", "C08", "C13", "C14"],
  "kind_free_text": "generators + independent reference encoder/decoder/skipper for the value wire format, byte mutators, counting allocator, panic capture; drives the real aldrin-core codec"},
]

BUS_NOTE = "Trusts the executable bus model (harness/src/bus/model.rs, written from the property statements) and the harness transport (in-memory message pipe, only the public AsyncTransport trait); cookies and broker-chosen serials are compared up to a bijection learned on first sight; payloads by value through the reference decoder when bytes differ."
CLAIMED.update({
 "C02": ("bus-rig", "exploration",
   "Runtime monitoring of the real broker and real Connection tasks on a deterministic executor: generated call histories (call v1/v2 form, owner replies of every result kind, replies by strangers, stale and duplicate replies, aborts incl. unknown serials, serial reuse, destroy service/object, the four kinds of disconnect, bursts of queued inputs so that senders are already gone when handled) are dequeued in an order the harness constructs and every delivery on every connection is compared with an executable sequential model of the bus. Held on the histories observed.",
   BUS_NOTE, "runtime history-vs-executable-model oracle on a scripted deterministic executor, panic monitor", "DESIGN.md §4 C02"),
 "C03": ("bus-rig", "exploration",
   "Same engine, registry profile: create/destroy of objects and services over a pool of 3x3 UUIDs by 3-6 connections, both create-service forms, version/info queries, subscribe and call probes, foreign/stale/never-issued cookies, disconnects incl. dropped connection tasks with requests still queued. Result codes, cookie freshness, ownership and cascades are decided by the model. Held on the histories observed.",
   BUS_NOTE, "runtime history-vs-executable-model oracle, panic monitor", "DESIGN.md §4 C03"),
 "C04": ("bus-rig", "exploration",
   "Same engine, events profile: subscribe/unsubscribe per event and all-events, service subscriptions, emits by owner and strangers, destroys and disconnects over 3 event ids; exact delivery sets and 0<->1 notifications at the owner (also when caused by a disconnect), ServiceDestroyed once per subscribed connection. Held on the histories observed.",
   BUS_NOTE + " For a connection whose only subscription is all-events the ServiceDestroyed notification is accepted present or absent (DESIGN C04 interpretation).", "runtime history-vs-executable-model oracle, panic monitor", "DESIGN.md §4 C04"),
 "C05": ("bus-rig", "exploration",
   "Same engine, channel profile: create/claim/close/send-item/add-capacity/disconnect on both ends, capacities 0,1,3,4,5,16,2^32-2,2^32-1, senders within and beyond their announced credit, overflowing grants; model = end state machine plus the two credits (conservation: forwarded <= granted, announced <= granted; a sender within its announced credit is never closed, one beyond loses only its end; a sender with no credit while the receiver has granted more is reported as starved). Held on the histories observed.",
   BUS_NOTE + " The timing of credit announcements to the sender is the broker's policy and is accepted whenever it stays within the granted capacity.", "runtime history-vs-executable-model oracle with conservation invariants, panic monitor", "DESIGN.md §4 C05"),
 "C09": ("bus-rig", "fault_enumeration",
   "Fault enumeration over generated mixed histories: each history is re-run once per cut point x victim connection x way of ending (client shutdown, transport closed, forced through the broker handle, connection task dropped) x queue state (empty, victim's requests queued ahead of the termination, termination queued ahead of them); after every dequeued input deliveries, the snapshot hook (map sizes + cross-reference walk inside the broker task) and the published statistics gauges are compared with the model; afterwards all connections end, the snapshot must be all-zero and shutdown_idle must make Broker::run return (its exit debug_assert!s are live); every fourth history ends in BrokerHandle::shutdown instead; fixed probes cover a connection task that ends by its own error. Held on the fault runs observed.",
   BUS_NOTE + " A dropped connection task is only noticed at the broker's next delivery attempt (documented upstream behaviour); the harness provokes one and demands cleanup from that point.", "runtime fault injection at every cut point + invariant at a hook (snapshot) + history-vs-model oracle", "DESIGN.md §4 C09"),
 "C10": ("bus-rig", "exploration",
   "Same engine, listener profile: several listeners per connection, add/remove/clear over all six filter shapes on the UUID pool, start with the three scopes/stop/destroy, object and service churn, disconnects; tagged current events = plain filter predicate over live entities followed by one marker, untagged new events once per connection. Held on the histories observed.",
   BUS_NOTE, "runtime history-vs-executable-model oracle, panic monitor", "DESIGN.md §4 C10"),
 "C11": ("bus-rig", "exploration",
   "Hostile histories: arbitrary messages of all 63 kinds (upstream Arbitrary derive) with ids redirected to live, stale and never-issued pools, guessed serials, payloads well-formed or garbage, wrong-direction and too-new kinds, duplicate serials, replies by strangers, interleaved with connects and all kinds of disconnects in bursts of up to 8 queued inputs; monitors: panic around every poll, quiescence within a round budget, and every delivery to every connection (abusers, bystanders, probes) against the bus model. Four fixed probes exercise payloads a peer would have to re-encode (known finding). Held on the histories observed.",
   BUS_NOTE + " Garbage payloads in the bulk workload are only sent where no peer has to re-encode them.", "runtime panic/hang monitors + history-vs-executable-model oracle under hostile workload", "DESIGN.md §4 C11"),
 "C12": ("bus-rig", "exploration",
   "Exhaustive small grids (handshake: both connect forms x majors x 30 minors; gating: 10 requested versions x 11 gated kinds on fresh connections) plus sampled interop: every ordered pair of the 49 negotiated-version pairs carries generated payloads (depth <= 8) through call arguments, replies, events, items and aborts, compared by value with the model, under a passive monitor that no delivered kind is newer than the receiver's version and no 1.20 container encoding reaches a pre-1.20 receiver; mixed-version histories run under the same monitor. Held on what was observed.",
   BUS_NOTE, "runtime grid enumeration + passive version/epoch monitor + history-vs-model oracle", "DESIGN.md §4 C12"),
})
ENGINES.append({"name": "bus-rig", "path": "harness/src/bus", "serves_properties": ["C02", "C03", "C04", "C05", "C09", "C10", "C11", "C12"],
  "kind_free_text": "deterministic single-thread executor (scripted/random), in-memory AsyncTransport with fault injection, executable sequential model of the bus with nondeterministic transitions, protocol-level peers driving the real Broker/Connection tasks, workload generator, snapshot-hook and statistics cross-checks"})

RIG_NOTE = "Real aldrin::Client, Broker and Connection tasks on the harness executor (single thread, seeded random task order with spurious polls) over the harness transport; programs are deadlock-free by construction, so a task still waiting at quiescence is a lost wake-up or deadlock; thread-level races are not explored."
CLAIMED["C04"] = ("bus-rig+client-rig", "exploration",
   "Two layers. Broker level: generated event histories (subscribe/unsubscribe per event and all-events, service subscriptions, emits by owner and strangers, destroys and disconnects over 3 event ids) against the bus model: exact delivery sets, 0<->1 notifications at the owner (also when caused by a disconnect), ServiceDestroyed once per subscribed connection. Client level: real owners and subscribers (several proxies per client, per-event and all-events subscriptions, proxies dropped) under random schedules: every event requested through a subscribed proxy arrives, in order, so the owner-side emit filter of the client library agrees with the broker's subscription state. Held on what was observed.",
   BUS_NOTE + " For a connection whose only subscription is all-events the ServiceDestroyed notification is accepted present or absent (DESIGN C04 interpretation). " + RIG_NOTE, "runtime history-vs-model oracle + tagged-event delivery check over real clients under random schedules", "DESIGN.md §4 C04")
CLAIMED["C05"] = ("bus-rig+client-rig", "exploration",
   "Two layers. Broker level: generated channel histories (create/claim/close/send-item/add-capacity/disconnect on both ends, capacities 0,1,3,4,5,16,2^32-2,2^32-1, senders within and beyond their announced credit, overflowing grants) against the bus model: end state machine, both credits, conservation (forwarded <= granted, announced <= granted), exactly one claimed/closed notification, starvation check. Client level: producer and consumer on different real clients with the real Sender/Receiver under random schedules and FIFO sizes 1..16: what arrives is the exact in-order prefix of the uniquely numbered items, complete unless one side stopped early, the producer never errors while the consumer reads, both terminate. Held on what was observed.",
   BUS_NOTE + " " + RIG_NOTE, "runtime history-vs-model oracle + exactly-once/in-order log check over real clients under random schedules", "DESIGN.md §4 C05")
CLAIMED["C06"] = ("client-rig", "exploration",
   "Random multi-client programs over the public client API (objects, services, calls of every outcome incl. cancelled ones, event subscriptions with emits, proxies dropped, channels across clients, bus listeners, lifetimes, discovery, proxies to dead services, double claims, families of 2-4 proxies of one service on one client with different subscriptions where one sibling leaves, introspection registered on one client and queried through another, promises kept by the callee until the caller aborts; FIFO sizes 1,2,4,16 and unbounded; negotiated versions 1.14-1.20 through a version-downgrading transport) run under seeded random task schedules with spurious polls. Monitors: panic around every poll, a watchdog for polls that never return, every Client::run and Connection::run returns Ok, every application task finishes by executor quiescence, calls return the echo of their own nonce, events and items carry their own tags in order, and after all clients shut down an idle-shutdown request stops the broker. Held on the (program, schedule) pairs observed.",
   RIG_NOTE + " The thorough tier adds Miri and AddressSanitizer slices of the same programs (a handful of whole multi-client runs under Miri, about a thousand under ASan).", "runtime invariant monitors (panic, hang, quiescence, result consistency) over randomized task schedules; Miri/ASan slices in the thorough tier", "DESIGN.md §4 C06")
CLAIMED["C15"] = ("client-rig", "fault_enumeration",
   "For generated multi-client programs with a fixed schedule seed, a counting run numbers the ready transport operations on the victim's pipe; the program is re-run once per operation index with an injected error, an end of stream and a half-open (send-only) failure on the client side, with a fault on the broker side of the pipe, with each clean cause (shutdown requested, broker shutdown, forced by the broker handle) triggered at that index, and with a half-open failure coinciding with the shutdown request; 'last handle dropped' is enumerated over the step boundaries of a fixed script. Oracle: Client::run returns (the injected error / Disconnected / Ok), every task working on the victim's handles has finished at quiescence, operations started after the stop report the shutdown, the broker-side connection task has returned, and the broker still stops when idle. Held on the fault runs observed.",
   RIG_NOTE + " The prefix of a re-run equals the counting run because program, schedule seed and transport are deterministic.", "runtime fault injection at every transport operation index + quiescence/termination monitors", "DESIGN.md §4 C15")
CLAIMED["C19"] = ("client-rig", "exploration",
   "Actors on several real clients create, destroy and drop objects (3 UUIDs, re-created under new cookies) and services (2 UUIDs) while discoverers of every entry shape (built in the three ways, read at random points with cancelled polls, restarted), lifetimes bound to every object and find_object queries run concurrently under seeded random schedules. At quiescence the discoverer database (iter, object_id, service_id) must equal the ground truth per entry, per-object event streams must alternate created/destroyed and end in the truth, a lifetime has resolved iff its object is gone, and find results must have existed during the call. Held on the (program, schedule) pairs observed.",
   RIG_NOTE + " Ground truth = the Object/Service values the actors hold at quiescence. The thorough tier adds Miri and AddressSanitizer slices of the same workload (MaybeUninit array in aldrin/src/discoverer.rs).", "runtime convergence-to-ground-truth oracle over randomized schedules; Miri/ASan slices in the thorough tier", "DESIGN.md §4 C19")
ENGINES.append({"name": "client-rig", "path": "harness/src/bus/clientrig.rs", "serves_properties": ["C04", "C05", "C06", "C15", "C19"],
  "kind_free_text": "real aldrin clients + broker + connection tasks on the deterministic executor in random mode; transport with FIFO bounds, fault injection at the k-th ready operation (error / EOF / half-open) and protocol-version downgrade; program generator over the public client API; in-poll hang watchdog"})

CLAIMED["C17"] = ("schema-lab", "exploration",
   "Runtime monitoring of the whole schema front end (Parser::parse with resolvable, missing, failing and cyclic imports; Renderer::render of every issue in four style/width combinations; Formatter; Generator::rust with and without introspection when error-free) on token soups over the grammar's alphabet, byte/line mutations of every *.aldrin file of the repository and generated schemas with adversarial doc comments and string constants, twice each: panic monitor, abort attribution through child processes, equality of the diagnostics of both runs as multisets; fixed probes for underscore-only identifiers and for nesting depths 50..20000 in processes of their own. Held on the inputs observed.",
   "Unbounded type-expression nesting is a recorded known finding (stack exhaustion); bounded nesting must pass.", "runtime panic/abort monitor + repeatability oracle over generated, mutated and adversarial inputs", "DESIGN.md §4b C17")
CLAIMED["C18"] = ("schema-lab", "exploration",
   "Runtime differential monitoring of the formatter: for schemas from a grammar-directed generator laid out with arbitrary legal whitespace, CR/LF mixes, blank lines, comments, doc strings and attributes in every position the grammar admits, and for every repository schema, the formatted text must parse without syntax error, the projection of the AST through the public accessors (definitions in order; names, ids, types, attributes, comment and doc lines; imports as a sorted set) must be unchanged, the multiset of diagnostic titles must be unchanged and formatting again must be the identity. Held on the schemas observed.",
   "The projection is the harness's reading of 'the same schema'; diagnostics are compared by their title line (positions aside).", "runtime differential/metamorphic oracle (projection equality, idempotence)", "DESIGN.md §4b C18")
CLAIMED["C20"] = ("schema-lab", "exploration",
   "Runtime metamorphic monitoring of the real TypeId::compute on hand-built IR fed through 64 const-generic Introspectable slots (random, recursive and mutually recursive layouts over all built-ins and generics): documentation edits, reference visiting order, insertion order and slot renumbering must keep the id, every single semantic edit of a reachable node (50 kinds: names, schema, ids, required flag, referenced types, fallbacks, uuid, version, payload presence, array length, transitive) must change it; Introspection records must round-trip through serialization and their references must resolve. Held on the layouts observed.",
   "Sampled 'iff'. The compiled-code half (generator output vs generate! macro vs hand-written derives with implicit/explicit ids) runs through C16's corpus crate in the same check; agreement of compiled code with hand-built IR for the same schema is not checked.", "runtime metamorphic oracle over the real hash function", "DESIGN.md §4b C20")
ENGINES.append({"name": "schema-lab", "path": "harness/src/schema", "serves_properties": ["C17", "C18", "C20"],
  "kind_free_text": "grammar-directed schema generator (own abstract schema + layout randomiser), AST projection through public accessors, token-soup and file-mutation generators, const-generic IR slots for the type-id function"})

CLAIMED["C16"] = ("schema-lab", "exploration",
   "Generated valid schemas (structs, enums, newtypes, services with inline types, consts as array lengths, optional/required fields, fallbacks, generics, arrays, results, maps/sets, recursion through box, awkward identifiers, adversarial docs, boundary ids) plus a fixed schema of corner shapes go through both code paths (aldrin-codegen's generator and the generate! macro) into a scratch corpus crate built with cargo: rustc is the monitor for 'compiles'. A generated runner decodes and re-encodes vectors produced from the schema by the harness's conformance relation: conforming values (both container encodings and mixed, optional fields absent/None/Some, unknown ids, unknown variants for fallback enums) must round-trip to their normal form (unknown parts preserved with fallback), systematic non-conforming mutants must be rejected; type ids of generator and macro output must agree; hand-written derives with implicit ids must agree with explicit twins on ids and wire. Held on the schemas and vectors observed.",
   "Trusts rustc/cargo and the harness's conformance relation (harness/src/schema/conform.rs); inline service types are only monitored for compiling.", "rustc as compile monitor + runtime differential oracle (conformance relation) over generated code", "DESIGN.md §4b C16")
for e in ENGINES:
    if e["name"] == "schema-lab":
        e["serves_properties"] = ["C16", "C17", "C18", "C20"]

if __name__ == "__main__":
    main()
