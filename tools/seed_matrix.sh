#!/bin/sh
# tools/seed_matrix.sh [ids...] : runs every seeded change against the quick check of the property
# it breaks (from meta.json), prints DETECTED / MISSED per change and records the result in
# seeded/<name>/meta.json ("detected_by"). Applies each patch to /repo and reverts it afterwards.
cd /verif || exit 2
if ! git -C /repo diff --quiet; then echo "/repo working tree is dirty"; exit 2; fi
names="$@"
[ -z "$names" ] && names=$(ls seeded | grep -E '^C[0-9]+-[A-Z]$')
for n in $names; do
    prop=$(echo "$n" | cut -d- -f1)
    extra=""
    case "$n" in C20-B) extra="C16";; C04-B|C05-B) extra="C06";; esac
    res=$(tools/try_patch.sh /verif/seeded/$n/patch.diff $prop $extra 2>&1)
    echo "== $n"; echo "$res" | cut -c1-260
    python3 - "$n" "$res" <<'PY'
import json,sys,re
n,res=sys.argv[1],sys.argv[2]
p='/verif/seeded/%s/meta.json'%n
m=json.load(open(p))
det=[]
for line in res.splitlines():
    mm=re.match(r'DETECTED (C\d+):\s*(?:violation \[([^\]]*)\])?',line)
    if mm: det.append({"check":mm.group(1),"tier":"quick","signature":mm.group(2) or ""})
m['detected_by']=det
m['missed_by']=[l.split()[1] for l in res.splitlines() if l.startswith('MISSED')]
json.dump(m,open(p,'w'),indent=1)
PY
done
