#!/usr/bin/env python3
"""tools/seed_table.py : regenerates the table of seeded changes in DESIGN.md (between the markers
<!-- SEED-TABLE-BEGIN --> and <!-- SEED-TABLE-END -->) from seeded/*/meta.json."""
import json, glob, os, re
rows = []
def short(s, n):
    s = re.sub(r"\s+", " ", (s or "").strip())
    if len(s) <= n: return s
    cut = s[:n]
    return cut[:cut.rfind(" ")] + " …"
for m in sorted(glob.glob("/verif/seeded/C*-*/meta.json")):
    name = os.path.basename(os.path.dirname(m))
    j = json.load(open(m))
    det = j.get("detected_by") or []
    by = "; ".join("%s %s `%s`" % (d["check"], d.get("tier", "quick"), short(d.get("signature", ""), 70)) for d in det) or "**missed**"
    who = "self-test" if "self-test" in (j.get("author") or "") else "sub-agent"
    rows.append("| %s | %s | %s | %s |" % (name, short(j.get("breaks"), 150).replace("|", "\\|"), short(j.get("needs_to_manifest"), 130).replace("|", "\\|"), by.replace("|", "\\|")))
table = "| Seeded change | What was changed | What it needs to manifest | Caught by (tier, signature) |\n|---|---|---|---|\n" + "\n".join(rows)
p = "/verif/DESIGN.md"
s = open(p).read()
b, e = "<!-- SEED-TABLE-BEGIN -->", "<!-- SEED-TABLE-END -->"
assert b in s and e in s
s = s[: s.index(b) + len(b)] + "\n" + table + "\n" + s[s.index(e):]
open(p, "w").write(s)
print(len(rows), "rows")
