#!/bin/sh
# tools/try_patch.sh <patch.diff> <check id>... : apply a seeded change to /repo, run the quick
# checks named, undo the change. Prints one line per check: DETECTED / MISSED / ERROR.
patch="$1"; shift
if ! git -C /repo diff --quiet; then echo "/repo working tree is dirty"; exit 2; fi
if ! git -C /repo apply "$patch"; then echo "patch does not apply"; exit 2; fi
for id in "$@"; do
    out=$(/verif/check "$id" --tier quick 2>&1); rc=$?
    case $rc in
        1) echo "DETECTED $id: $(echo "$out" | grep -m1 'violation \[' )";;
        0) echo "MISSED   $id";;
        *) echo "ERROR    $id rc=$rc: $(echo "$out" | tail -n 3)";;
    esac
done
git -C /repo checkout -- . ; git -C /repo clean -fdq -e target 2>/dev/null
