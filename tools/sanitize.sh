#!/bin/sh
# tools/sanitize.sh <id> <out.json> : sanitizer slices of a codec check's workload.
#   * Miri (cargo +nightly miri run): 6 child shards with a tiny volume each (UB, uninitialised
#     reads, leaks in the unsafe surface: Packetizer, MaybeUninit arrays, slice casts).
#   * AddressSanitizer (-Zsanitizer=address): 8 child shards at a tenth of the quick volume.
# Writes an outcome file that `vcheck --merge` folds into the evidence. A slice that cannot start
# is recorded as inconclusive for that slice, never as a violation.
id="$1"; out="$2"
ROOT=$(cd "$(dirname "$0")/.." && pwd)
export CARGO_NET_OFFLINE=true
work=$(mktemp -d /tmp/vsan-XXXXXX)
log="$work/log"
case "$id" in
  C01) mscale=0.004; ascale=0.1;; C07) mscale=0.004; ascale=0.1;; C13) mscale=0.003; ascale=0.1;;
  C14) mscale=0.006; ascale=0.1;; C19) mscale=0.002; ascale=0.05;; C06) mscale=0.0005; ascale=0.02;; C08) mscale=0.003; ascale=0.1;; *) mscale=0.002; ascale=0.05;;
esac
# ---- Miri ----
mkdir -p "$work/miri"
miri_started=0
if (cd "$ROOT/harness" && CARGO_TARGET_DIR="$ROOT/target/miri" cargo +nightly miri run --offline --quiet --bin vcheck -- --help >/dev/null 2>"$work/miri-build.log"; true); then :; fi
for sh in 1 2 3 4 5 6; do
  ( cd "$ROOT/harness" && CARGO_TARGET_DIR="$ROOT/target/miri" MIRIFLAGS="-Zmiri-disable-isolation" \
    timeout 1500 cargo +nightly miri run --offline --quiet --bin vcheck -- "$id" --tier quick --seed "${VERIF_SEED:-20260923}" \
      --child $sh 16 "$work/miri" --scale $mscale --mode miri >"$work/miri/out-$sh.txt" 2>"$work/miri/err-$sh.txt"; echo $? >"$work/miri/rc-$sh" ) &
done
wait
# ---- ASan ----
mkdir -p "$work/asan"
( cd "$ROOT/harness" && CARGO_TARGET_DIR="$ROOT/target/asan" RUSTFLAGS="-Zsanitizer=address -Cforce-frame-pointers=yes" \
  cargo +nightly build --offline --quiet --profile verif --target x86_64-unknown-linux-gnu >"$work/asan-build.log" 2>&1; echo $? >"$work/asan/build-rc" )
if [ "$(cat "$work/asan/build-rc")" = "0" ]; then
  bin="$ROOT/target/asan/x86_64-unknown-linux-gnu/verif/vcheck"
  for sh in 1 2 3 4 5 6 7 8; do
    ( ASAN_OPTIONS="halt_on_error=1:abort_on_error=0:detect_leaks=0:exitcode=66" timeout 1500 "$bin" "$id" --tier quick --seed "${VERIF_SEED:-20260923}" \
        --child $sh 16 "$work/asan" --scale $ascale --mode asan >"$work/asan/out-$sh.txt" 2>"$work/asan/err-$sh.txt"; echo $? >"$work/asan/rc-$sh" ) &
  done
  wait
fi
python3 - "$work" "$out" "$id" <<'PY'
import json,sys,os,glob,re
work,out,pid=sys.argv[1:4]
res={"evaluations":0,"samples":[],"violations":[],"inconclusive":[],"counters":{},"maxima":{},"sets":{}}
def cnt(k,n=1): res["counters"][k]=res["counters"].get(k,0)+n
# an incomplete slice is inconclusive for that slice only: recorded in the evidence (set
# "sanitizer_slices_incomplete" and counter), it does not change the verdict of the native run
def note(s):
    res["sets"].setdefault("sanitizer_slices_incomplete",[]).append(s); cnt("sanitizer_slices_incomplete")
def fold(tool, nshards):
    started=0
    for sh in range(1,nshards+1):
        rcf=os.path.join(work,tool,"rc-%d"%sh)
        if not os.path.exists(rcf): continue
        rc=int(open(rcf).read().strip() or 1)
        err=open(os.path.join(work,tool,"err-%d.txt"%sh),errors="replace").read()
        jf=os.path.join(work,tool,"shard-%d.json"%sh)
        if rc==0 and os.path.exists(jf):
            started+=1
            j=json.load(open(jf))
            cnt("%s_shards_ok"%tool); cnt("%s_evaluations"%tool, j.get("evaluations",0))
            res["evaluations"]+=j.get("evaluations",0)
            for v in j.get("violations",[]):
                v["signature"]="%s:%s"%(tool,v["signature"]); res["violations"].append(v)
        else:
            ub = re.search(r"(error: Undefined Behavior[^\n]*|ERROR: AddressSanitizer[^\n]*|error: memory leaked[^\n]*|error: unsupported operation[^\n]*)", err)
            if ub and "unsupported operation" not in ub.group(1):
                started+=1
                frame = re.search(r"(/repo/[^\s:]+:\d+)", err)
                res["violations"].append({"signature":"%s:%s"%(tool, (frame.group(1) if frame else ub.group(1))[:80]),
                    "detail":"%s reported: %s ... %s"%(tool, ub.group(1), err[-600:]), "replay":{"property":pid,"tool":tool,"shard":sh}})
            else:
                note("%s shard %d did not complete (rc %d): %s"%(tool,sh,rc,(err.strip().splitlines() or ["?"])[-1][:200]))
    if started==0:
        note("%s slice could not start"%tool)
fold("miri",6); fold("asan",8)
json.dump(res,open(out,"w"))
print("sanitizer slices:", {k:v for k,v in res["counters"].items()}, "violations:", len(res["violations"]), "incomplete slices:", res["counters"].get("sanitizer_slices_incomplete",0))
PY
rm -rf "$work"
