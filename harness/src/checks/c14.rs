//! C14 — byte-stream framing is independent of fragmentation and back-pressure (DESIGN.md §3).

use super::Check;
use crate::codec::real;
use crate::guard::{guarded, panic_site};
use crate::prng::{fnv, Rng};
use crate::report::{Ctx, Outcome, Tier};
use aldrin_core::message::{Message, MessageOps, Packetizer, SendItem};
use aldrin_core::tokio::{TokioTransport, TokioTransportError};
use aldrin_core::transport::{AsyncTransport, Buffered};
use aldrin_core::ChannelCookie;
use serde_json::json;
use std::io;
use std::pin::Pin;
use std::task::{Context, Poll, Waker};
use tokio::io::{AsyncRead, AsyncWrite, ReadBuf};

pub struct C14;

impl Check for C14 {
    fn id(&self) -> &'static str {
        "C14"
    }
    fn level(&self) -> &'static str {
        "exploration"
    }
    fn rule(&self) -> &'static str {
        "case i mod 4: (0,1) Packetizer fed a sequence of 1..8 frames (5 B .. 5 MiB, crossing the \
         64 KiB and 4 MiB reserve steps) cut by a random chunker (single bytes, exact boundaries, \
         multi-frame chunks) through extend_from_slice or spare_capacity_mut/bytes_written, with \
         next_message called eagerly, lazily or only at the end; shadow byte counter oracle. \
         (2) two real TokioTransports over a scripted AsyncRead+AsyncWrite pipe (short reads / \
         writes, Pending, Ok(0), errors, flush scripts); oracle: order, exactly-once, flush \
         completeness, back-pressure boundary, EOF / zero-write errors. (3) Buffered<T> over a \
         scripted inner transport. distinct = hash of (frame sizes, chunk sizes, script); \
         non-trivial = at least two frames or at least one Pending/short I/O result"
    }
    fn assumptions(&self) -> Vec<String> {
        vec![
            "scripted I/O replaces the OS: the transport's logic is exercised, kernel behaviour is not".into(),
            "a Pending result is followed by a (legal, spurious) re-poll; wake-up bookkeeping of the real reactor is out of scope".into(),
        ]
    }
    fn total_cases(&self, tier: Tier) -> u64 {
        match tier {
            Tier::Quick => 8_000,
            Tier::Thorough => 800_000,
        }
    }
    fn run_case(&self, ctx: &Ctx, idx: u64, out: &mut Outcome) {
        let mut r = Rng::derive(ctx.seed, idx, 0xC14);
        match idx % 4 {
            0 | 1 => packetizer_case(ctx, idx, &mut r, out),
            2 => transport_case(ctx, idx, &mut r, out),
            _ => buffered_case(ctx, idx, &mut r, out),
        }
    }
    fn gates(&self, _tier: Tier, m: &Outcome) -> Vec<String> {
        let mut unmet = Vec::new();
        for key in [
            "pk_frames_out", "pk_iface[extend]", "pk_iface[spare]", "pk_crossed_64k", "tt_messages_received",
            "tt_pending_reads", "tt_short_writes", "tt_eof_seen", "tt_write_zero_seen", "tt_backpressure_pending",
            "bf_messages", "bf_inner_pending",
        ] {
            if m.counters.get(key).copied().unwrap_or(0) == 0 {
                unmet.push(format!("observation class `{}` never occurred", key));
            }
        }
        unmet
    }
}

// ---------------------------------------------------------------------------------------------
// Packetizer
// ---------------------------------------------------------------------------------------------

/// Under an interpreter (mode `miri`) frames stay small: its cost is per byte.
fn frame_size_for(r: &mut Rng, ctx: &Ctx) -> usize {
    if ctx.mode == "miri" {
        return if r.chance(1, 12) { r.range(65_530, 65_560) } else { r.range(5, 300) };
    }
    frame_size(r, ctx.tier)
}

fn frame_size(r: &mut Rng, tier: Tier) -> usize {
    match r.below(100) {
        0..=59 => r.range(5, 120),
        60..=79 => r.range(121, 9000),
        80..=93 => r.range(60_000, 70_000), // around the 64 KiB reserve step
        94..=98 => r.range(70_001, 600_000),
        _ => {
            if tier == Tier::Thorough || r.chance(1, 4) {
                r.range(4 * 1024 * 1024 - 10, 5 * 1024 * 1024)
            } else {
                r.range(5, 64)
            }
        }
    }
}

fn make_frame(r: &mut Rng, n: usize) -> Vec<u8> {
    let mut f = vec![0u8; n];
    f[..4].copy_from_slice(&(n as u32).to_le_bytes());
    // cheap deterministic fill that makes every frame distinct
    let tag = r.next_u64();
    for (i, b) in f[4..].iter_mut().enumerate() {
        *b = (tag.wrapping_add(i as u64).wrapping_mul(0x9E37_79B9)) as u8;
    }
    f
}

fn packetizer_case(ctx: &Ctx, idx: u64, r: &mut Rng, out: &mut Outcome) {
    out.eval();
    let nframes = r.range(1, 8);
    let frames: Vec<Vec<u8>> = (0..nframes).map(|_| {
        let n = frame_size_for(r, ctx);
        make_frame(r, n)
    }).collect();
    let sizes: Vec<usize> = frames.iter().map(|f| f.len()).collect();
    let stream: Vec<u8> = frames.concat();
    let mut ends = Vec::new();
    let mut acc = 0usize;
    for f in &frames {
        acc += f.len();
        ends.push(acc);
    }
    let use_spare = r.bool();
    let drain_mode = r.below(3); // 0 eager, 1 lazy, 2 only at the end
    let chunk_mode = r.below(4);
    out.count(if use_spare { "pk_iface[spare]" } else { "pk_iface[extend]" }, 1);
    out.count(&format!("pk_drain[{}]", ["eager", "lazy", "end"][drain_mode]), 1);
    if sizes.iter().any(|s| *s > 65536) {
        out.count("pk_crossed_64k", 1);
    }
    if sizes.iter().any(|s| *s > 4 * 1024 * 1024) {
        out.count("pk_crossed_4m", 1);
    }

    // chunk plan
    let mut chunks: Vec<usize> = Vec::new();
    let mut left = stream.len();
    let mut pos = 0usize;
    while left > 0 {
        let n = match chunk_mode {
            0 => 1usize.max(if stream.len() > 4000 { r.range(1, 4096) } else { 1 }),
            1 => {
                // exact frame boundaries
                let next_end = ends.iter().find(|e| **e > pos).copied().unwrap_or(stream.len());
                next_end - pos
            }
            2 => r.range(1, 17),
            _ => r.range(1, (stream.len() / 2).max(2)),
        }
        .min(left);
        chunks.push(n);
        pos += n;
        left -= n;
    }
    let mut h = Vec::new();
    for s in &sizes {
        h.extend_from_slice(&(*s as u32).to_le_bytes());
    }
    for c in chunks.iter().take(64) {
        h.extend_from_slice(&(*c as u32).to_le_bytes());
    }
    h.push(use_spare as u8);
    h.push(drain_mode as u8);
    if nframes >= 2 {
        out.distinct_case(fnv(&h));
    }
    let drain_name = ["eager", "lazy", "end"][drain_mode];
    if idx < 8 {
        out.sample(json!({"case": idx, "engine": "packetizer", "frame_sizes": sizes, "first_chunks": chunks.iter().take(12).collect::<Vec<_>>(),
                          "interface": if use_spare { "spare_capacity_mut" } else { "extend_from_slice" }, "drain": drain_name}));
    }
    let rp = |extra: serde_json::Value| {
        json!({"property": "C14", "seed": ctx.seed, "case": idx, "tier": ctx.tier.name(), "engine": "packetizer",
               "frame_sizes": sizes, "chunks_head": chunks.iter().take(40).collect::<Vec<_>>(), "spare_interface": use_spare,
               "drain_mode": drain_mode, "observed": extra})
    };

    let res = guarded(|| {
        let mut p = Packetizer::new();
        let mut fed = 0usize;
        let mut next = 0usize; // next frame expected
        let mut problems: Vec<(String, String)> = Vec::new();
        let mut frames_out = 0u64;
        let mut drain = |p: &mut Packetizer, fed: usize, next: &mut usize, problems: &mut Vec<(String, String)>, frames_out: &mut u64| loop {
            match p.next_message() {
                Some(m) => {
                    if *next >= frames.len() {
                        problems.push(("pk-extra-frame".into(), format!("frame of {} bytes emitted after all {} frames", m.len(), frames.len())));
                        return;
                    }
                    if ends[*next] > fed {
                        problems.push(("pk-frame-before-complete".into(), format!("frame {} emitted after {} bytes, complete only after {}", *next, fed, ends[*next])));
                    }
                    if m[..] != frames[*next][..] {
                        problems.push(("pk-frame-differs".into(), format!("frame {}: got {} bytes, expected {}", *next, m.len(), frames[*next].len())));
                    }
                    *next += 1;
                    *frames_out += 1;
                }
                None => {
                    if *next < frames.len() && ends[*next] <= fed {
                        problems.push(("pk-frame-withheld".into(), format!("frame {} complete after {} bytes, {} fed, next_message() = None", *next, ends[*next], fed)));
                    }
                    return;
                }
            }
        };
        let mut rr = Rng::new(idx ^ 0x5eed);
        for c in &chunks {
            let chunk = &stream[fed..fed + c];
            if use_spare {
                let mut off = 0;
                while off < chunk.len() {
                    let dst = p.spare_capacity_mut();
                    if dst.is_empty() {
                        problems.push(("pk-spare-empty".into(), format!("spare_capacity_mut() returned an empty slice after {} bytes", fed + off)));
                        return (problems, frames_out);
                    }
                    let n = dst.len().min(chunk.len() - off);
                    for (d, s) in dst[..n].iter_mut().zip(&chunk[off..off + n]) {
                        d.write(*s);
                    }
                    unsafe { p.bytes_written(n) };
                    off += n;
                }
            } else {
                p.extend_from_slice(chunk);
            }
            fed += c;
            let do_drain = match drain_mode {
                0 => true,
                1 => rr.chance(1, 3),
                _ => false,
            };
            if do_drain {
                drain(&mut p, fed, &mut next, &mut problems, &mut frames_out);
            } else if drain_mode == 1 && rr.chance(1, 4) {
                // a single call (sets the packetizer's cached length when incomplete)
                if let Some(m) = p.next_message() {
                    if next < frames.len() && m[..] == frames[next][..] && ends[next] <= fed {
                        next += 1;
                        frames_out += 1;
                    } else {
                        problems.push(("pk-frame-differs".into(), format!("single next_message(): unexpected frame of {} bytes", m.len())));
                    }
                }
            }
        }
        drain(&mut p, fed, &mut next, &mut problems, &mut frames_out);
        if next != frames.len() {
            problems.push(("pk-frames-lost".into(), format!("{} of {} frames came out after all {} bytes were fed", next, frames.len(), fed)));
        }
        (problems, frames_out)
    });
    match res {
        Ok((problems, n)) => {
            out.count("pk_frames_out", n);
            for (sig, detail) in problems {
                out.violation(sig, detail, rp(json!(null)));
            }
        }
        Err(p) => out.violation(format!("panic:packetizer:{}", panic_site(&p)), p, rp(json!(null))),
    }
}

// ---------------------------------------------------------------------------------------------
// Scripted I/O object
// ---------------------------------------------------------------------------------------------

#[derive(Clone, Copy, Debug, PartialEq)]
enum Step {
    Pending,
    Some(usize), // up to n bytes
    Zero,
    Err,
    All,
}

struct ScriptIo {
    // write side
    wire: Vec<u8>,
    flushed_at: Option<usize>,
    wscript: Vec<Step>,
    fscript: Vec<Step>,
    wi: usize,
    fi: usize,
    // read side
    input: Vec<u8>,
    rpos: usize,
    rscript: Vec<Step>,
    ri: usize,
    eof_at: Option<usize>,
    // observations
    pending_reads: u64,
    short_writes: u64,
    /// zero-length results returned for a non-empty write
    zero_writes: u64,
    /// Pending results returned by this object (each one "registers" the caller's waker)
    io_pendings: u64,
}

impl ScriptIo {
    fn new() -> Self {
        Self {
            wire: Vec::new(),
            flushed_at: None,
            wscript: Vec::new(),
            fscript: Vec::new(),
            wi: 0,
            fi: 0,
            input: Vec::new(),
            rpos: 0,
            rscript: Vec::new(),
            ri: 0,
            eof_at: None,
            pending_reads: 0,
            short_writes: 0,
            zero_writes: 0,
            io_pendings: 0,
        }
    }
    fn next(script: &[Step], i: &mut usize) -> Step {
        if script.is_empty() {
            return Step::All;
        }
        let s = script[*i % script.len()];
        *i += 1;
        s
    }
}

impl AsyncRead for ScriptIo {
    fn poll_read(mut self: Pin<&mut Self>, _cx: &mut Context<'_>, buf: &mut ReadBuf<'_>) -> Poll<io::Result<()>> {
        let this = &mut *self;
        let limit = this.eof_at.unwrap_or(this.input.len()).min(this.input.len());
        let avail = limit - this.rpos;
        if avail == 0 {
            return Poll::Ready(Ok(())); // end of stream
        }
        match ScriptIo::next(&this.rscript, &mut this.ri) {
            Step::Pending => {
                this.pending_reads += 1;
                this.io_pendings += 1;
                Poll::Pending
            }
            Step::Err => Poll::Ready(Err(io::Error::new(io::ErrorKind::ConnectionReset, "scripted read error"))),
            step => {
                let want = match step {
                    Step::Some(n) => n.max(1),
                    _ => usize::MAX,
                };
                let n = want.min(avail).min(buf.remaining());
                buf.put_slice(&this.input[this.rpos..this.rpos + n]);
                this.rpos += n;
                Poll::Ready(Ok(()))
            }
        }
    }
}

impl AsyncWrite for ScriptIo {
    fn poll_write(mut self: Pin<&mut Self>, _cx: &mut Context<'_>, buf: &[u8]) -> Poll<io::Result<usize>> {
        let this = &mut *self;
        match ScriptIo::next(&this.wscript, &mut this.wi) {
            Step::Pending => {
                this.io_pendings += 1;
                Poll::Pending
            }
            Step::Err => Poll::Ready(Err(io::Error::new(io::ErrorKind::BrokenPipe, "scripted write error"))),
            Step::Zero => {
                if !buf.is_empty() {
                    this.zero_writes += 1;
                }
                Poll::Ready(Ok(0))
            }
            step => {
                let n = match step {
                    Step::Some(n) => n.max(1).min(buf.len()),
                    _ => buf.len(),
                };
                if n < buf.len() {
                    this.short_writes += 1;
                }
                this.wire.extend_from_slice(&buf[..n]);
                this.flushed_at = None;
                Poll::Ready(Ok(n))
            }
        }
    }
    fn poll_flush(mut self: Pin<&mut Self>, _cx: &mut Context<'_>) -> Poll<io::Result<()>> {
        let this = &mut *self;
        match ScriptIo::next(&this.fscript, &mut this.fi) {
            Step::Pending => {
                this.io_pendings += 1;
                Poll::Pending
            }
            Step::Err => Poll::Ready(Err(io::Error::new(io::ErrorKind::BrokenPipe, "scripted flush error"))),
            _ => {
                this.flushed_at = Some(this.wire.len());
                Poll::Ready(Ok(()))
            }
        }
    }
    fn poll_shutdown(self: Pin<&mut Self>, _cx: &mut Context<'_>) -> Poll<io::Result<()>> {
        Poll::Ready(Ok(()))
    }
}

fn gen_script(r: &mut Rng, allow_zero: bool, allow_err: bool) -> Vec<Step> {
    let n = r.range(0, 12);
    let mut v: Vec<Step> = (0..n)
        .map(|_| match r.below(20) {
            0..=5 => Step::Pending,
            6..=12 => Step::Some(*r.pick(&[1usize, 1, 2, 3, 4, 5, 7, 16, 100, 4096, 8191, 8192, 8193, 70000])),
            13 if allow_zero => Step::Zero,
            14 if allow_err => Step::Err,
            _ => Step::All,
        })
        .collect();
    // a script that can never make progress would make every bounded-progress verdict
    // meaningless: guarantee one progressing step per cycle
    if !v.is_empty() && !v.iter().any(|s| matches!(s, Step::Some(_) | Step::All)) {
        v.push(Step::All);
    }
    v
}

fn gen_messages(ctx: &Ctx, idx: u64, r: &mut Rng) -> Vec<Message> {
    let n = r.range(1, 10);
    let mut v = Vec::new();
    for j in 0..n {
        if r.chance(1, 6) {
            // large payload: crosses the 8 KiB back-pressure boundary / the 64 KiB reserve step
            let len = *r.pick(&[8_100usize, 8_192, 20_000, 65_500, 70_000, 200_000]);
            let mut bytes = vec![18u8];
            crate::codec::rv::put_varint(&mut bytes, len as u64, 4, &mut None);
            bytes.extend(std::iter::repeat((j as u8).wrapping_mul(31)).take(len));
            let value = real::sv_from_bytes(&bytes).unwrap();
            v.push(SendItem { cookie: ChannelCookie(uuid::Uuid::from_u128(idx as u128)), value }.into());
        } else if let Some((m, _)) = super::c08::gen_message(ctx.seed ^ 0x14, idx.wrapping_mul(16).wrapping_add(j as u64)) {
            v.push(m);
        }
    }
    if v.is_empty() {
        v.push(aldrin_core::message::Shutdown.into());
    }
    v
}

fn transport_case(ctx: &Ctx, idx: u64, r: &mut Rng, out: &mut Outcome) {
    out.eval();
    let msgs = gen_messages(ctx, idx, r);
    let frames: Vec<Vec<u8>> = msgs.iter().map(|m| m.clone().serialize_message().unwrap().to_vec()).collect();
    let inject_zero = r.chance(1, 8);
    let inject_err = r.chance(1, 8);
    let wscript = gen_script(r, inject_zero, inject_err);
    let ferr = inject_err && r.bool();
    let fscript = gen_script(r, false, ferr);
    let rscript = gen_script(r, false, false);
    let early_eof = r.chance(1, 5);
    let flush_every = r.range(1, 4);
    let mut h = Vec::new();
    for f in &frames {
        h.extend_from_slice(&(f.len() as u32).to_le_bytes());
    }
    h.extend(format!("{:?}{:?}{:?}", wscript, fscript, rscript).bytes());
    if !wscript.is_empty() || !rscript.is_empty() {
        out.distinct_case(fnv(&h));
    }
    if idx < 12 {
        out.sample(json!({"case": idx, "engine": "tokio-transport", "frame_sizes": frames.iter().map(|f| f.len()).collect::<Vec<_>>(),
                          "write_script": format!("{:?}", wscript), "flush_script": format!("{:?}", fscript), "read_script": format!("{:?}", rscript)}));
    }
    let rp = |extra: serde_json::Value| {
        json!({"property": "C14", "seed": ctx.seed, "case": idx, "tier": ctx.tier.name(), "engine": "tokio-transport",
               "frame_sizes": frames.iter().map(|f| f.len()).collect::<Vec<_>>(), "write_script": format!("{:?}", wscript),
               "flush_script": format!("{:?}", fscript), "read_script": format!("{:?}", rscript), "observed": extra})
    };

    let res = guarded(|| {
        let mut problems: Vec<(String, String)> = Vec::new();
        let mut obs: Vec<(&'static str, u64)> = Vec::new();
        // wake-up discipline: a Pending result is only legitimate if somebody will wake the task,
        // i.e. the I/O object returned Pending during that call (it holds the waker then) or the
        // transport woke the task itself
        let wakes = std::sync::Arc::new(WakeCount(std::sync::atomic::AtomicU64::new(0)));
        let waker = Waker::from(wakes.clone());
        let mut cx = Context::from_waker(&waker);
        let wake_n = || wakes.0.load(std::sync::atomic::Ordering::SeqCst);
        // ---------------- sender ----------------
        let mut io = ScriptIo::new();
        io.wscript = wscript.clone();
        io.fscript = fscript.clone();
        let io = std::rc::Rc::new(std::cell::RefCell::new(io));
        let mut t = Box::pin(TokioTransport::new(SharedIo(io.clone())));
        let mut expected_wire: Vec<u8> = Vec::new();
        let mut failed = false;
        // every script cycle moves at least one byte; allow for the worst case (a cycle of
        // Pending results followed by a single byte) with a wide margin, so that running out of
        // polls really means "no progress"
        let total_bytes: usize = frames.iter().map(|f| f.len()).sum();
        let cycle = wscript.len().max(rscript.len()).max(fscript.len()) + 2;
        let budget = (total_bytes + 64) * cycle * 4 + 200_000;
        'send: for (i, m) in msgs.iter().enumerate() {
            // ready
            let mut polls = 0;
            loop {
                // bytes handed to the transport but not yet on the wire
                let unsent = expected_wire.len() - io.borrow().wire.len();
                let (p0, w0) = (io.borrow().io_pendings, wake_n());
                let z0 = io.borrow().zero_writes;
                let r = t.as_mut().send_poll_ready(&mut cx);
                if io.borrow().zero_writes > z0 && !matches!(&r, Poll::Ready(Err(_))) {
                    problems.push(("tt-write-zero-swallowed:ready".into(), format!("the I/O object returned Ok(0) for a non-empty write during send_poll_ready, which returned {:?} instead of an error", r.is_ready())));
                    break 'send;
                }
                if r.is_pending() && io.borrow().io_pendings == p0 && wake_n() == w0 {
                    problems.push(("tt-pending-without-wakeup:ready".into(), "send_poll_ready returned Pending although the I/O object never returned Pending during the call and nobody was woken".into()));
                    break 'send;
                }
                match r {
                    Poll::Ready(Ok(())) => break,
                    Poll::Ready(Err(e)) => {
                        check_io_error(&e, inject_zero, inject_err, &mut problems, &mut obs);
                        failed = true;
                        break 'send;
                    }
                    Poll::Pending => {
                        obs.push(("tt_backpressure_pending", 1));
                        if unsent < 8 * 1024 {
                            problems.push(("tt-ready-pending-below-boundary".into(), format!("send_poll_ready Pending with only {} unsent bytes", unsent)));
                        }
                    }
                }
                polls += 1;
                if polls > budget {
                    problems.push(("tt-ready-never".into(), "send_poll_ready stayed Pending".into()));
                    break 'send;
                }
            }
            if let Err(e) = t.as_mut().send_start(m.clone()) {
                problems.push(("tt-send-start-error".into(), format!("{:?}", e)));
                break;
            }
            expected_wire.extend_from_slice(&frames[i]);
            if (i + 1) % flush_every == 0 || i + 1 == msgs.len() {
                let mut polls = 0;
                loop {
                    let (p0, w0) = (io.borrow().io_pendings, wake_n());
                    let z0 = io.borrow().zero_writes;
                    let r = t.as_mut().send_poll_flush(&mut cx);
                    if io.borrow().zero_writes > z0 && !matches!(&r, Poll::Ready(Err(_))) {
                        problems.push(("tt-write-zero-swallowed:flush".into(), format!("the I/O object returned Ok(0) for a non-empty write during send_poll_flush, which returned {:?} instead of an error", r.is_ready())));
                        break 'send;
                    }
                    if r.is_pending() && io.borrow().io_pendings == p0 && wake_n() == w0 {
                        problems.push(("tt-pending-without-wakeup:flush".into(), "send_poll_flush returned Pending although the I/O object never returned Pending during the call and nobody was woken".into()));
                        break 'send;
                    }
                    match r {
                        Poll::Ready(Ok(())) => {
                            let io = io.borrow();
                            if io.wire != expected_wire {
                                problems.push(("tt-flush-incomplete".into(), format!("flush returned Ok with {} of {} bytes written", io.wire.len(), expected_wire.len())));
                            } else if io.flushed_at != Some(io.wire.len()) {
                                problems.push(("tt-inner-flush-missing".into(), format!("flush returned Ok, inner flushed at {:?}, wire has {}", io.flushed_at, io.wire.len())));
                            }
                            break;
                        }
                        Poll::Ready(Err(e)) => {
                            check_io_error(&e, inject_zero, inject_err, &mut problems, &mut obs);
                            failed = true;
                            break 'send;
                        }
                        Poll::Pending => {}
                    }
                    polls += 1;
                    if polls > budget {
                        problems.push(("tt-flush-never".into(), "send_poll_flush stayed Pending although the script keeps making progress".into()));
                        break 'send;
                    }
                }
            }
        }
        obs.push(("tt_short_writes", io.borrow().short_writes));
        let wire = io.borrow().wire.clone();
        drop(t);
        if !expected_wire.starts_with(&wire) {
            problems.push(("tt-wire-corrupt".into(), "bytes on the wire are not a prefix of the concatenated frames".into()));
        }
        // ---------------- receiver ----------------
        // complete run: feed the *expected* stream (independent of sender failures)
        let _ = failed;
        let full_wire: Vec<u8> = frames.concat();
        let mut io = ScriptIo::new();
        io.input = full_wire.clone();
        io.rscript = rscript.clone();
        let cut = if early_eof { Some(Rng::new(idx).below(full_wire.len())) } else { None };
        io.eof_at = cut;
        let io = std::rc::Rc::new(std::cell::RefCell::new(io));
        let mut t = Box::pin(TokioTransport::new(SharedIo(io.clone())));
        let mut got = 0usize;
        let mut acc = 0usize;
        let complete_before_cut = match cut {
            Some(c) => frames.iter().take_while(|f| {
                acc += f.len();
                acc <= c
            }).count(),
            None => frames.len(),
        };
        let mut polls = 0;
        loop {
            let (p0, w0) = (io.borrow().io_pendings, wake_n());
            let r = t.as_mut().receive_poll(&mut cx);
            if r.is_pending() && io.borrow().io_pendings == p0 && wake_n() == w0 {
                problems.push(("tt-pending-without-wakeup:receive".into(), format!("receive_poll returned Pending after {} messages although the reader never returned Pending during the call and nobody was woken: the task would sleep forever", got)));
                break;
            }
            if r.is_pending() {
                obs.push(("tt_pending_results_justified", 1));
            }
            match r {
                Poll::Ready(Ok(m)) => {
                    if got >= msgs.len() || m != msgs[got] {
                        problems.push(("tt-receive-differs".into(), format!("message {} differs or is extra", got)));
                        break;
                    }
                    got += 1;
                }
                Poll::Ready(Err(e)) => {
                    match &e {
                        TokioTransportError::Io(ioe) if ioe.kind() == io::ErrorKind::UnexpectedEof => obs.push(("tt_eof_seen", 1)),
                        other => problems.push(("tt-eof-wrong-error".into(), format!("end of stream reported as {:?}", other))),
                    }
                    if got != complete_before_cut {
                        problems.push(("tt-messages-lost-before-eof".into(), format!("{} messages delivered before end of stream, {} were complete", got, complete_before_cut)));
                    }
                    break;
                }
                Poll::Pending => {}
            }
            polls += 1;
            if polls > budget {
                problems.push(("tt-receive-never".into(), "receive_poll stayed Pending".into()));
                break;
            }
        }
        obs.push(("tt_messages_received", got as u64));
        obs.push(("tt_pending_reads", io.borrow().pending_reads));
        (problems, obs)
    });
    match res {
        Ok((problems, obs)) => {
            for (k, n) in obs {
                out.count(k, n);
            }
            for (sig, detail) in problems {
                out.violation(sig, detail, rp(json!(null)));
            }
        }
        Err(p) => out.violation(format!("panic:tokio-transport:{}", panic_site(&p)), p, rp(json!(null))),
    }
}

fn check_io_error(e: &TokioTransportError, inject_zero: bool, inject_err: bool, problems: &mut Vec<(String, String)>, obs: &mut Vec<(&'static str, u64)>) {
    match e {
        TokioTransportError::Io(ioe) => match ioe.kind() {
            io::ErrorKind::WriteZero => {
                obs.push(("tt_write_zero_seen", 1));
                if !inject_zero {
                    problems.push(("tt-spurious-write-zero".into(), "WriteZero without a zero-length write".into()));
                }
            }
            io::ErrorKind::BrokenPipe => {
                obs.push(("tt_io_error_seen", 1));
                if !inject_err {
                    problems.push(("tt-spurious-error".into(), "I/O error without an injected error".into()));
                }
            }
            k => problems.push(("tt-unexpected-error".into(), format!("{:?}", k))),
        },
        other => problems.push(("tt-unexpected-error".into(), format!("{:?}", other))),
    }
}

struct WakeCount(std::sync::atomic::AtomicU64);

impl std::task::Wake for WakeCount {
    fn wake(self: std::sync::Arc<Self>) {
        self.0.fetch_add(1, std::sync::atomic::Ordering::SeqCst);
    }
}

// `TokioTransport` does not expose its I/O object, so the scripted object is shared through an
// `Rc<RefCell<..>>`; this wrapper is what is handed to the transport.
struct SharedIo(std::rc::Rc<std::cell::RefCell<ScriptIo>>);

impl AsyncRead for SharedIo {
    fn poll_read(self: Pin<&mut Self>, cx: &mut Context<'_>, buf: &mut ReadBuf<'_>) -> Poll<io::Result<()>> {
        Pin::new(&mut *self.0.borrow_mut()).poll_read(cx, buf)
    }
}

impl AsyncWrite for SharedIo {
    fn poll_write(self: Pin<&mut Self>, cx: &mut Context<'_>, buf: &[u8]) -> Poll<io::Result<usize>> {
        Pin::new(&mut *self.0.borrow_mut()).poll_write(cx, buf)
    }
    fn poll_flush(self: Pin<&mut Self>, cx: &mut Context<'_>) -> Poll<io::Result<()>> {
        Pin::new(&mut *self.0.borrow_mut()).poll_flush(cx)
    }
    fn poll_shutdown(self: Pin<&mut Self>, cx: &mut Context<'_>) -> Poll<io::Result<()>> {
        Pin::new(&mut *self.0.borrow_mut()).poll_shutdown(cx)
    }
}

// ---------------------------------------------------------------------------------------------
// Buffered<T> over a scripted inner transport
// ---------------------------------------------------------------------------------------------

#[derive(Default)]
struct InnerState {
    started: Vec<Message>,
    ready_script: Vec<Step>,
    flush_script: Vec<Step>,
    ri: usize,
    fi: usize,
    flushed_after: Option<usize>,
    start_without_ready: u64,
    ready_granted: bool,
    pending: u64,
    incoming: std::collections::VecDeque<Message>,
}

struct ScriptTransport(std::rc::Rc<std::cell::RefCell<InnerState>>);

impl AsyncTransport for ScriptTransport {
    type Error = &'static str;

    fn receive_poll(self: Pin<&mut Self>, _cx: &mut Context) -> Poll<Result<Message, Self::Error>> {
        match self.0.borrow_mut().incoming.pop_front() {
            Some(m) => Poll::Ready(Ok(m)),
            None => Poll::Ready(Err("eof")),
        }
    }

    fn send_poll_ready(self: Pin<&mut Self>, _cx: &mut Context) -> Poll<Result<(), Self::Error>> {
        let mut st = self.0.borrow_mut();
        let st = &mut *st;
        match ScriptIo::next(&st.ready_script, &mut st.ri) {
            Step::Pending => {
                st.pending += 1;
                Poll::Pending
            }
            Step::Err => Poll::Ready(Err("ready-error")),
            _ => {
                st.ready_granted = true;
                Poll::Ready(Ok(()))
            }
        }
    }

    fn send_start(self: Pin<&mut Self>, msg: Message) -> Result<(), Self::Error> {
        let mut st = self.0.borrow_mut();
        if !st.ready_granted {
            st.start_without_ready += 1;
        }
        st.ready_granted = false;
        st.started.push(msg);
        st.flushed_after = None;
        Ok(())
    }

    fn send_poll_flush(self: Pin<&mut Self>, _cx: &mut Context) -> Poll<Result<(), Self::Error>> {
        let mut st = self.0.borrow_mut();
        let st = &mut *st;
        match ScriptIo::next(&st.flush_script, &mut st.fi) {
            Step::Pending => {
                st.pending += 1;
                Poll::Pending
            }
            Step::Err => Poll::Ready(Err("flush-error")),
            _ => {
                st.flushed_after = Some(st.started.len());
                Poll::Ready(Ok(()))
            }
        }
    }
}

fn buffered_case(ctx: &Ctx, idx: u64, r: &mut Rng, out: &mut Outcome) {
    out.eval();
    let msgs = gen_messages(ctx, idx, r);
    let inject_err = r.chance(1, 8);
    let ready_script = gen_script(r, false, inject_err);
    let ferr = inject_err && r.bool();
    let flush_script = gen_script(r, false, ferr);
    let flush_every = r.range(1, 5);
    let mut h: Vec<u8> = format!("{:?}{:?}{}{}", ready_script, flush_script, msgs.len(), flush_every).into_bytes();
    h.push(3);
    if !ready_script.is_empty() {
        out.distinct_case(fnv(&h));
    }
    let rp = |extra: serde_json::Value| {
        json!({"property": "C14", "seed": ctx.seed, "case": idx, "tier": ctx.tier.name(), "engine": "buffered",
               "messages": msgs.len(), "ready_script": format!("{:?}", ready_script), "flush_script": format!("{:?}", flush_script), "observed": extra})
    };
    let res = guarded(|| {
        let mut problems: Vec<(String, String)> = Vec::new();
        let st = std::rc::Rc::new(std::cell::RefCell::new(InnerState::default()));
        st.borrow_mut().ready_script = ready_script.clone();
        st.borrow_mut().flush_script = flush_script.clone();
        st.borrow_mut().incoming = msgs.iter().cloned().collect();
        let wakes = std::sync::Arc::new(WakeCount(std::sync::atomic::AtomicU64::new(0)));
        let waker = Waker::from(wakes.clone());
        let mut cx = Context::from_waker(&waker);
        let wake_n = || wakes.0.load(std::sync::atomic::Ordering::SeqCst);
        let mut b = Box::pin(Buffered::new(ScriptTransport(st.clone())));
        let mut sent = 0usize;
        'outer: for (i, m) in msgs.iter().enumerate() {
            match b.as_mut().send_poll_ready(&mut cx) {
                Poll::Ready(Ok(())) => {}
                other => problems.push(("bf-ready-not-immediate".into(), format!("Buffered::send_poll_ready returned {:?}", other.map(|x| x.is_ok())))),
            }
            if b.as_mut().send_start(m.clone()).is_err() {
                problems.push(("bf-send-start-error".into(), "send_start failed".into()));
                break;
            }
            sent += 1;
            if (i + 1) % flush_every == 0 || i + 1 == msgs.len() {
                let mut polls = 0;
                loop {
                    let (p0, w0) = (st.borrow().pending, wake_n());
                    let r = b.as_mut().send_poll_flush(&mut cx);
                    if r.is_pending() && st.borrow().pending == p0 && wake_n() == w0 {
                        problems.push(("bf-pending-without-wakeup:flush".into(), "Buffered::send_poll_flush returned Pending although the inner transport never returned Pending during the call and nobody was woken".into()));
                        break 'outer;
                    }
                    match r {
                        Poll::Ready(Ok(())) => {
                            let s = st.borrow();
                            if s.started.len() != sent || s.started[..] != msgs[..sent] {
                                problems.push(("bf-flush-incomplete".into(), format!("flush Ok with {} of {} messages handed to the inner transport (or reordered)", s.started.len(), sent)));
                            } else if s.flushed_after != Some(sent) {
                                problems.push(("bf-inner-flush-missing".into(), format!("inner flush completed after {:?} messages, {} sent", s.flushed_after, sent)));
                            }
                            break;
                        }
                        Poll::Ready(Err(e)) => {
                            if !inject_err {
                                problems.push(("bf-spurious-error".into(), e.to_string()));
                            }
                            break 'outer;
                        }
                        Poll::Pending => {}
                    }
                    polls += 1;
                    if polls > 100_000 {
                        problems.push(("bf-flush-never".into(), "flush stayed Pending".into()));
                        break 'outer;
                    }
                }
            }
        }
        {
            let s = st.borrow();
            if !msgs.starts_with(&s.started) {
                problems.push(("bf-order".into(), "inner transport saw messages out of order or duplicated".into()));
            }
            if s.start_without_ready > 0 {
                problems.push(("bf-start-without-ready".into(), format!("{} send_start calls on the inner transport without a preceding Ready", s.start_without_ready)));
            }
        }
        // receive side is a pass-through
        let mut got = 0;
        loop {
            match b.as_mut().receive_poll(&mut cx) {
                Poll::Ready(Ok(m)) => {
                    if got >= msgs.len() || m != msgs[got] {
                        problems.push(("bf-receive-differs".into(), format!("message {}", got)));
                        break;
                    }
                    got += 1;
                }
                Poll::Ready(Err(_)) => break,
                Poll::Pending => break,
            }
        }
        if got != msgs.len() {
            problems.push(("bf-receive-lost".into(), format!("{} of {}", got, msgs.len())));
        }
        let pend = st.borrow().pending;
        (problems, sent as u64, pend)
    });
    match res {
        Ok((problems, sent, pend)) => {
            out.count("bf_messages", sent);
            out.count("bf_inner_pending", pend);
            for (sig, detail) in problems {
                out.violation(sig, detail, rp(json!(null)));
            }
        }
        Err(p) => out.violation(format!("panic:buffered:{}", panic_site(&p)), p, rp(json!(null))),
    }
}
