//! C08 — message codec round-trip and strict parsing of all message kinds (DESIGN.md §3).

use super::Check;
use crate::codec::mutate;
use crate::codec::real;
use crate::codec::rv::{self, Epoch};
use crate::guard::{guarded, panic_site};
use crate::prng::{fnv, Rng};
use crate::report::{hex, hex_trunc, Ctx, Outcome, Tier};
use aldrin_core::message::{Message, MessageOps};
use arbitrary::{Arbitrary, Unstructured};
use bytes::BytesMut;
use serde_json::json;

pub struct C08;

pub const NUM_KINDS: u64 = 63;

/// Identifier skeleton of a message's Debug rendering: which enum alternatives it uses.
pub fn skeleton(msg: &Message) -> String {
    let dbg = format!("{:?}", msg);
    let mut out = String::new();
    let mut in_buf = 0usize;
    let mut word = String::new();
    for c in dbg.chars() {
        if c == '[' {
            in_buf += 1;
        } else if c == ']' {
            in_buf = in_buf.saturating_sub(1);
        }
        if in_buf > 0 {
            continue;
        }
        if c.is_ascii_alphabetic() || c == '_' {
            word.push(c);
        } else {
            if !word.is_empty() {
                // drop hex-looking fragments of uuids
                let hexish = word.chars().all(|c| c.is_ascii_hexdigit());
                if !hexish || word.chars().next().map(|c| c.is_ascii_uppercase()).unwrap_or(false) {
                    if !out.ends_with(&format!(".{}", word)) {
                        out.push('.');
                        out.push_str(&word);
                    }
                }
                word.clear();
            }
        }
    }
    out
}

pub fn gen_message(seed: u64, idx: u64) -> Option<(Message, Rng)> {
    let mut r = Rng::derive(seed, idx, 0xC08);
    let kind = idx % NUM_KINDS;
    let n = r.range(40, 400);
    let mut data = match (idx / NUM_KINDS) % 5 {
        0 => vec![0u8; n],
        1 => vec![0xFFu8; n],
        2 => {
            // varint switch points as little-endian u32s
            let edges = [0u32, 1, 250, 251, 252, 255, 256, 65535, 65536, 0xFF_FFFF, 0x100_0000, u32::MAX];
            let mut d = Vec::new();
            while d.len() < n {
                d.extend_from_slice(&r.pick(&edges).to_le_bytes());
            }
            d
        }
        _ => r.bytes(n),
    };
    // the derive picks the variant from the first u32: (x * 63) >> 32
    let x = (((kind as u128 * 2 + 1) << 32) / (NUM_KINDS as u128 * 2)) as u32;
    data[..4].copy_from_slice(&x.to_le_bytes());
    let mut u = Unstructured::new(&data);
    let mut msg = Message::arbitrary(&mut u).ok()?;
    // payloads: half of the time a well-formed value of 1..N bytes
    if let Some(v) = msg.value_mut() {
        if r.bool() {
            let d = r.range(1, 8);
            let mut budget = r.range(1, 30);
            let val = rv::gen_value(&mut r, d, &mut budget);
            let enc = if r.bool() { rv::encode_epoch(&val, Epoch::V2) } else { rv::encode_mixed(&val, &mut r, true) };
            if let Some(sv) = real::sv_from_bytes(&enc) {
                *v = sv;
            }
        } else if r.chance(1, 4) {
            *v = real::sv_from_bytes(&[r.below(3) as u8]).unwrap();
        }
    }
    Some((msg, r))
}

impl Check for C08 {
    fn id(&self) -> &'static str {
        "C08"
    }
    fn level(&self) -> &'static str {
        "exploration"
    }
    fn rule(&self) -> &'static str {
        "case i = Message of kind (i mod 63) built by upstream's own Arbitrary derive from a \
         structured byte stream (all-zero, all-0xFF, varint switch points, random), payload \
         replaced half of the time by a well-formed value encoding of 1..N bytes. Valid oracle: \
         prefix = frame length, byte 4 = kind, parse(frame) = message. Strictness (metamorphic): \
         every strict truncation (prefix kept / fixed), appended bytes (prefix kept / fixed), wrong \
         prefixes, unknown kind bytes rejected; for small frames every byte set to all 256 values, \
         and 6 random multi-byte mutants per frame: no panic, and whatever parses has a matching \
         prefix and re-serializes to a frame that parses to an equal message. distinct = hash of \
         the frame; non-trivial = frame longer than 5 bytes"
    }
    fn assumptions(&self) -> Vec<String> {
        vec!["message generator = upstream `arbitrary` derive (feature fuzzing): stays in sync with the 63 kinds; coverage gate requires all 63 kinds and every observed enum alternative class".into()]
    }
    fn total_cases(&self, tier: Tier) -> u64 {
        match tier {
            Tier::Quick => 63 * 320,
            Tier::Thorough => 63 * 16_000,
        }
    }
    fn run_case(&self, ctx: &Ctx, idx: u64, out: &mut Outcome) {
        let Some((msg, mut r)) = gen_message(ctx.seed, idx) else {
            out.count("generator_ran_out_of_bytes", 1);
            return;
        };
        check_message(ctx, idx, msg, &mut r, out);
    }
    fn gates(&self, _tier: Tier, m: &Outcome) -> Vec<String> {
        let mut unmet = Vec::new();
        let kinds = m.sets.get("message_kinds").map(|s| s.len()).unwrap_or(0);
        if kinds < NUM_KINDS as usize {
            unmet.push(format!("only {}/63 message kinds generated", kinds));
        }
        let alts = m.sets.get("alternatives").map(|s| s.len()).unwrap_or(0);
        if alts < 120 {
            unmet.push(format!("only {} enum-alternative skeletons generated (expected >= 120)", alts));
        }
        for key in ["mutants_accepted", "mutants_rejected", "truncations", "byte_sweeps"] {
            if m.counters.get(key).copied().unwrap_or(0) == 0 {
                unmet.push(format!("observation class `{}` never occurred", key));
            }
        }
        unmet
    }
}

fn parse(frame: &[u8]) -> Result<Result<Message, aldrin_core::message::MessageDeserializeError>, String> {
    let buf = BytesMut::from(frame);
    guarded(|| Message::deserialize_message(buf))
}

pub fn check_message(ctx: &Ctx, idx: u64, msg: Message, r: &mut Rng, out: &mut Outcome) {
    out.eval();
    let kind_name = format!("{:?}", msg.kind());
    out.seen("message_kinds", kind_name.clone());
    out.seen("alternatives", skeleton(&msg));
    let rp = |frame: &[u8], extra: serde_json::Value| {
        json!({"property": "C08", "seed": ctx.seed, "case": idx, "tier": ctx.tier.name(), "kind": kind_name,
               "frame": hex(&frame[..frame.len().min(4096)]), "observed": extra})
    };

    // ---- valid: serialize, prefix, kind byte, parse back --------------------------------------
    let m2 = msg.clone();
    let frame = match guarded(|| m2.serialize_message()) {
        Ok(Ok(f)) => f.to_vec(),
        Ok(Err(e)) => {
            out.violation("serialize-fails", format!("{}: {:?}", kind_name, e), rp(&[], json!({"message": format!("{:?}", msg).chars().take(600).collect::<String>()})));
            return;
        }
        Err(p) => {
            out.violation(format!("panic:serialize-message:{}", panic_site(&p)), p, rp(&[], json!(null)));
            return;
        }
    };
    if frame.len() > 5 {
        out.distinct_case(fnv(&frame));
    }
    if idx < 4 {
        out.sample(json!({"case": idx, "kind": kind_name, "frame": hex_trunc(&frame, 60)}));
    }
    if frame.len() < 5 {
        out.violation("frame-too-short", format!("{} bytes", frame.len()), rp(&frame, json!(null)));
        return;
    }
    let prefix = u32::from_le_bytes(frame[..4].try_into().unwrap()) as usize;
    if prefix != frame.len() {
        out.violation("length-prefix-wrong", format!("prefix {} for a frame of {} bytes", prefix, frame.len()), rp(&frame, json!(null)));
    }
    let kb: u8 = msg.kind().into();
    if frame[4] != kb {
        out.violation("kind-byte-wrong", format!("byte 4 = {}, kind = {}", frame[4], kb), rp(&frame, json!(null)));
    }
    match parse(&frame) {
        Ok(Ok(back)) => {
            if back != msg {
                out.violation("roundtrip-differs", format!("{}: parsed message differs from the original", kind_name), rp(&frame, json!({"parsed": format!("{:?}", back).chars().take(500).collect::<String>()})));
            } else if let (Some(a), Some(b)) = (msg.value(), back.value()) {
                let (a, b): (&[u8], &[u8]) = (a, b);
                if a != b {
                    out.violation("payload-differs", "payload bytes changed".to_string(), rp(&frame, json!(null)));
                }
            }
        }
        Ok(Err(e)) => out.violation("valid-frame-rejected", format!("{}: {:?}", kind_name, e), rp(&frame, json!(null))),
        Err(p) => out.violation(format!("panic:parse:{}", panic_site(&p)), p, rp(&frame, json!(null))),
    }

    // ---- strictness -------------------------------------------------------------------------------
    let must_reject = |label: &str, f: &[u8], out: &mut Outcome| match parse(f) {
        Ok(Err(_)) => {}
        Ok(Ok(m)) => out.violation(
            format!("accepts-{}", label),
            format!("{}: malformed frame ({}) accepted as {:?}", kind_name, label, m.kind()),
            rp(f, json!({"original": hex_trunc(&frame, 200)})),
        ),
        Err(p) => out.violation(format!("panic:parse:{}", panic_site(&p)), p, rp(f, json!(null))),
    };
    let fix = |f: &mut Vec<u8>| {
        let n = f.len() as u32;
        if f.len() >= 4 {
            f[..4].copy_from_slice(&n.to_le_bytes());
        }
    };
    if frame.len() <= 256 {
        for n in 0..frame.len() {
            out.count("truncations", 1);
            let t = frame[..n].to_vec();
            must_reject("truncated", &t, out);
            let mut t2 = t.clone();
            fix(&mut t2);
            if n >= 4 {
                must_reject("truncated-prefix-fixed", &t2, out);
            }
        }
    }
    for extra in 1..=2 {
        let mut a = frame.clone();
        for _ in 0..extra {
            a.push(r.next_u64() as u8);
        }
        must_reject("appended", &a, out);
        fix(&mut a);
        must_reject("appended-prefix-fixed", &a, out);
    }
    for wrong in [0u32, 4, frame.len() as u32 - 1, frame.len() as u32 + 1, u32::MAX, 0x8000_0000] {
        let mut w = frame.clone();
        w[..4].copy_from_slice(&wrong.to_le_bytes());
        must_reject("wrong-prefix", &w, out);
    }
    {
        let mut w = frame.clone();
        w[4] = r.range(63, 255) as u8;
        must_reject("unknown-kind", &w, out);
    }

    // ---- whatever parses must be self-consistent ------------------------------------------------------
    let consistent = |f: &[u8], out: &mut Outcome| match parse(f) {
        Err(p) => out.violation(format!("panic:parse:{}", panic_site(&p)), p, rp(f, json!(null))),
        Ok(Err(_)) => out.count("mutants_rejected", 1),
        Ok(Ok(m)) => {
            out.count("mutants_accepted", 1);
            let pre = u32::from_le_bytes(f[..4].try_into().unwrap()) as usize;
            if pre != f.len() {
                out.violation("accepts-wrong-prefix", format!("accepted a frame of {} bytes with prefix {}", f.len(), pre), rp(f, json!(null)));
            }
            let kb: u8 = m.kind().into();
            if f[4] != kb {
                out.violation("accepted-kind-mismatch", format!("byte 4 = {} parsed as {:?}", f[4], m.kind()), rp(f, json!(null)));
            }
            let m2 = m.clone();
            match guarded(|| m2.serialize_message()) {
                Ok(Ok(f2)) => match parse(&f2) {
                    Ok(Ok(m3)) => {
                        if m3 != m {
                            out.violation("reparse-differs", "accepted frame re-serializes to a frame that parses differently".to_string(), rp(f, json!({"reserialized": hex_trunc(&f2, 300)})));
                        }
                    }
                    other => out.violation("reserialized-frame-rejected", format!("{:?}", other.map(|x| x.map(|y| y.kind()))), rp(f, json!({"reserialized": hex_trunc(&f2, 300)}))),
                },
                Ok(Err(e)) => out.violation("accepted-message-does-not-serialize", format!("{:?}", e), rp(f, json!(null))),
                Err(p) => out.violation(format!("panic:serialize-message:{}", panic_site(&p)), p, rp(f, json!(null))),
            }
        }
    };
    // (the kind is idx % 63: the sweep selector must not share a factor with that, or only every
    // seventh kind is ever swept - which an earlier version did)
    if frame.len() <= 40 && (idx / 63) % 7 == 0 {
        out.count("byte_sweeps", 1);
        out.seen("kinds_swept", kind_name.clone());
        for pos in 0..frame.len() {
            let orig = frame[pos];
            for b in 0..=255u8 {
                if b == orig {
                    continue;
                }
                let mut f = frame.clone();
                f[pos] = b;
                consistent(&f, out);
                // strict parsing: a frame that differs from a valid frame in exactly one byte
                // cannot mean the same message - if it is accepted as the same message, the
                // byte that differs was read leniently (e.g. an option / enum tag or a boolean
                // taken as "anything but 0"), i.e. a field that is not well-formed was accepted
                // (not inside the value slot of a kind that carries one: values are opaque to the
                // message parser - their well-formedness is C07's subject - and a variant without a
                // payload carries a placeholder value there whose bytes are not part of the message)
                let in_value_slot = msg.kind().has_value() && frame.len() >= 9 && {
                    let l = u32::from_le_bytes(frame[5..9].try_into().unwrap()) as usize;
                    pos >= 9 && pos < 9usize.saturating_add(l)
                };
                if pos >= 5 && !in_value_slot {
                    if let Ok(Ok(m2)) = parse(&f) {
                        if m2 == msg {
                            out.violation(
                                "accepts-alias-of-valid-frame",
                                format!("{}: changing byte {} of a valid frame from {} to {} gives a frame that is accepted as the very same message", kind_name, pos, orig, b),
                                rp(&f, json!({"valid_frame": hex_trunc(&frame, 300), "position": pos})),
                            );
                        }
                    }
                }
            }
        }
    }
    let other = frame.clone();
    for _ in 0..6 {
        let mut f = frame.clone();
        let n = r.range(1, 3);
        for _ in 0..n {
            // keep the header mostly intact so that mutants reach the field parsers
            let mut tail = f.split_off(5.min(f.len()));
            mutate::mutate(r, &mut tail, &other);
            f.extend_from_slice(&tail);
        }
        if r.chance(4, 5) {
            fix(&mut f);
        }
        if f.len() >= 5 {
            consistent(&f, out);
        }
    }
    if idx % 16 == 0 {
        let n = r.range(5, 64);
        let mut f = mutate::soup(r, n);
        f[4] = r.below(63) as u8;
        fix(&mut f);
        consistent(&f, out);
    }
}
