//! C16: generated Rust types are wire-compatible with their schema. Generated schemas go
//! through both code paths (aldrin-codegen's generator and the `generate!` macro) into a scratch
//! corpus crate; rustc is the monitor for "compiles"; a generated runner decodes and re-encodes
//! test vectors produced from the *schema* by the reference conformance relation.

use super::Check;
use crate::codec::rv::{self, Epoch, RV};
use crate::prng::{fnv, Rng};
use crate::report::{hex, unhex, Ctx, Outcome, Tier};
use crate::schema::conform::{conforming_def, mutants, normal_form_def, Env};
use crate::schema::gen::{ADef, ASchema, GenCfg, Layout, SchemaGen};
use aldrin_codegen::{Generator, Options, RustOptions};
use aldrin_parser::{MemoryResolver, Parser};
use serde_json::json;
use std::collections::BTreeMap;
use std::fmt::Write as _;
use std::path::{Path, PathBuf};
use std::process::Command;

pub struct C16;

const HANDWRITTEN: &str = r#"
// Hand-written derives: implicit ids must mean "previous id + 1" in every derive alike.
pub mod implicit {
    #[derive(Debug, Clone, PartialEq, ::aldrin::Tag, ::aldrin::PrimaryTag, ::aldrin::RefType, ::aldrin::Serialize, ::aldrin::Deserialize, ::aldrin::Introspectable)]
    #[aldrin(schema = "hw", ref_type)]
    pub enum Mixed {
        A,
        #[aldrin(id = 5)]
        B(u32),
        C(String),
        #[aldrin(id = 2)]
        D,
        E(u8),
    }

    #[derive(Debug, Clone, PartialEq, ::aldrin::Tag, ::aldrin::PrimaryTag, ::aldrin::RefType, ::aldrin::Serialize, ::aldrin::Deserialize, ::aldrin::Introspectable)]
    #[aldrin(schema = "hw", ref_type)]
    pub struct Rec {
        pub a: u8,
        #[aldrin(id = 7)]
        pub b: u16,
        pub c: u32,
    }
}

pub mod explicit {
    #[derive(Debug, Clone, PartialEq, ::aldrin::Tag, ::aldrin::PrimaryTag, ::aldrin::RefType, ::aldrin::Serialize, ::aldrin::Deserialize, ::aldrin::Introspectable)]
    #[aldrin(schema = "hw", ref_type)]
    pub enum Mixed {
        #[aldrin(id = 0)]
        A,
        #[aldrin(id = 5)]
        B(u32),
        #[aldrin(id = 6)]
        C(String),
        #[aldrin(id = 2)]
        D,
        #[aldrin(id = 3)]
        E(u8),
    }

    #[derive(Debug, Clone, PartialEq, ::aldrin::Tag, ::aldrin::PrimaryTag, ::aldrin::RefType, ::aldrin::Serialize, ::aldrin::Deserialize, ::aldrin::Introspectable)]
    #[aldrin(schema = "hw", ref_type)]
    pub struct Rec {
        #[aldrin(id = 0)]
        pub a: u8,
        #[aldrin(id = 7)]
        pub b: u16,
        #[aldrin(id = 8)]
        pub c: u32,
    }
}
"#;

const RUNNER_HEAD: &str = r#"#![allow(warnings)]
use aldrin::core::introspection::Introspectable;
use aldrin::core::message::{MessageOps, SendItem};
use aldrin::core::tags::PrimaryTag;
use aldrin::core::{Deserialize, Serialize, SerializedValue, TypeId};

fn sv(bytes: &[u8]) -> SerializedValue {
    let total = 9 + bytes.len() + 16;
    let mut buf = bytes::BytesMut::with_capacity(total);
    buf.extend_from_slice(&(total as u32).to_le_bytes());
    buf.extend_from_slice(&[27]);
    buf.extend_from_slice(&(bytes.len() as u32).to_le_bytes());
    buf.extend_from_slice(bytes);
    buf.extend_from_slice(&[0u8; 16]);
    SendItem::deserialize_message(buf).unwrap().value
}

fn rt<T>(b: &[u8]) -> Result<Vec<u8>, String>
where
    T: PrimaryTag + Deserialize<T::Tag> + Serialize<T::Tag>,
    for<'a> &'a T: Serialize<T::Tag>,
{
    let v: T = sv(b).deserialize_as::<T::Tag, T>().map_err(|e| format!("{:?}", e))?;
    let out = SerializedValue::serialize_as::<T::Tag>(&v).map_err(|e| format!("serialize: {:?}", e))?;
    let s: &[u8] = out.as_ref();
    let by_ref = s.to_vec();
    // the by-value implementation must write the same bytes as the by-reference one
    let out2 = SerializedValue::serialize_as::<T::Tag>(v).map_err(|e| format!("BYVALUE serialize by value fails: {:?}", e))?;
    let s2: &[u8] = out2.as_ref();
    if s2 != &by_ref[..] {
        return Err(format!("BYVALUE by-ref {} by-value {}", hex(&by_ref), hex(s2)));
    }
    Ok(by_ref)
}

fn unhex(s: &str) -> Vec<u8> {
    (0..s.len() / 2).map(|i| u8::from_str_radix(&s[2 * i..2 * i + 2], 16).unwrap()).collect()
}

fn hex(b: &[u8]) -> String {
    b.iter().map(|x| format!("{:02x}", x)).collect()
}

mod handwritten { include!("handwritten.rs"); }

fn handwritten_checks() {
    use handwritten::{explicit as ex, implicit as im};
    println!("hw type-id Mixed {} {}", TypeId::compute::<im::Mixed>().0, TypeId::compute::<ex::Mixed>().0);
    println!("hw type-id Rec {} {}", TypeId::compute::<im::Rec>().0, TypeId::compute::<ex::Rec>().0);
    let vals = [im::Mixed::A, im::Mixed::B(9), im::Mixed::C("x".into()), im::Mixed::D, im::Mixed::E(3)];
    for v in vals {
        let s = SerializedValue::serialize_as::<im::Mixed>(&v).unwrap();
        let back: Result<ex::Mixed, _> = s.deserialize_as::<ex::Mixed, ex::Mixed>();
        println!("hw wire Mixed {:?} -> {:?}", v, back);
    }
    let r = im::Rec { a: 1, b: 2, c: 3 };
    let s = SerializedValue::serialize_as::<im::Rec>(&r).unwrap();
    println!("hw wire Rec {:?} -> {:?}", r, s.deserialize_as::<ex::Rec, ex::Rec>());
}

fn main() {
    let args: Vec<String> = std::env::args().collect();
    type_ids();
    handwritten_checks();
    let text = std::fs::read_to_string(&args[1]).unwrap();
    for (i, line) in text.lines().enumerate() {
        let mut it = line.split(' ');
        let key = it.next().unwrap();
        let bytes = unhex(it.next().unwrap_or(""));
        let r = std::panic::catch_unwind(|| dispatch(key, &bytes));
        match r {
            Ok(Some(Ok(out))) => println!("{} ok {}", i, hex(&out)),
            Ok(Some(Err(e))) => println!("{} err {}", i, e.replace(' ', "_")),
            Ok(None) => println!("{} nokey", i),
            Err(_) => println!("{} panic", i),
        }
    }
}
"#;

struct Item {
    idx: usize,
    schema: ASchema,
    text: String,
    gen_code: Option<String>,
}

/// heck's upper camel case for the identifiers the schema generator produces (lower-case words
/// joined by `_`, optional trailing digit or underscore)
pub(crate) fn upper_camel(s: &str) -> String {
    // codegen/src/util.rs keeps leading and trailing underscores around the converted core
    let trimmed = s.trim_start_matches('_');
    let start = s.len() - trimmed.len();
    let end = start + trimmed.trim_end_matches('_').len();
    let core: String = s[start..end]
        .split('_')
        .filter(|w| !w.is_empty())
        .map(|w| {
            let mut c = w.chars();
            match c.next() {
                Some(f) => f.to_uppercase().collect::<String>() + &c.as_str().to_lowercase(),
                None => String::new(),
            }
        })
        .collect();
    format!("{}{}{}", &s[..start], core, &s[end..])
}

/// Inline structs and enums of services under the names the code generator gives them
/// (`codegen/src/rust/names.rs`): `<Service><Function>{Args,Ok,Error}`, `<Service><Event>Args`.
fn inline_defs(schema: &ASchema) -> Vec<ADef> {
    use crate::schema::gen::{AItem, APart};
    let mut v = Vec::new();
    let mut push = |name: String, p: &APart| match p {
        APart::Struct(s) => {
            let mut s = s.clone();
            s.name = name;
            v.push(ADef::Struct(s));
        }
        APart::Enum(e) => {
            let mut e = e.clone();
            e.name = name;
            v.push(ADef::Enum(e));
        }
        APart::Type(_) => {}
    };
    for d in &schema.defs {
        let ADef::Service(svc) = d else { continue };
        for it in &svc.items {
            match it {
                AItem::Fn { name, args, ok, err, .. } => {
                    let f = upper_camel(name);
                    if let Some((_, p)) = args {
                        push(format!("{}{}Args", svc.name, f), p);
                    }
                    if let Some((_, p)) = ok {
                        push(format!("{}{}Ok", svc.name, f), p);
                    }
                    if let Some((_, p)) = err {
                        push(format!("{}{}Error", svc.name, f), p);
                    }
                }
                AItem::Event { name, ty, .. } => {
                    if let Some(p) = ty {
                        push(format!("{}{}Args", svc.name, upper_camel(name)), p);
                    }
                }
            }
        }
    }
    v
}

/// All types of a schema that get vectors: top-level structs/enums/newtypes plus the inline
/// types of services whose generated name is found in the generator's output (a name this harness
/// cannot predict is counted and skipped, never blamed on the subject).
fn wire_types(it: &Item, out: Option<&mut Outcome>) -> Vec<ADef> {
    let mut v: Vec<ADef> = it.schema.defs.iter().filter(|d| matches!(d, ADef::Struct(_) | ADef::Enum(_) | ADef::Newtype { .. })).cloned().collect();
    let mut skipped = 0;
    let mut names = Vec::new();
    for d in inline_defs(&it.schema) {
        let n = d.name();
        let found = match &it.gen_code {
            Some(code) => {
                let kw = if matches!(d, ADef::Struct(_)) { "struct" } else { "enum" };
                code.contains(&format!("pub {} {} ", kw, n)) || code.contains(&format!("pub {} r#{} ", kw, n))
            }
            None => false,
        };
        if found {
            v.push(d);
        } else {
            skipped += 1;
            names.push(d.name().to_string());
        }
    }
    if let Some(out) = out {
        out.count("inline_types_name_not_found", skipped);
        for n in names {
            out.seen("inline_types_name_not_found", &n);
        }
    }
    v
}

fn scratch_root() -> PathBuf {
    let root = std::env::var("VERIF_ROOT").unwrap_or_else(|_| "/verif".into());
    PathBuf::from(root)
}

fn write_corpus(dir: &Path, items: &[&Item]) -> std::io::Result<()> {
    std::fs::create_dir_all(dir.join("src"))?;
    std::fs::create_dir_all(dir.join("schemas"))?;
    std::fs::copy(format!("{}/Cargo.lock", crate::repo_root()), dir.join("Cargo.lock"))?;
    std::fs::write(
        dir.join("Cargo.toml"),
        format!("[package]\nname = \"corpus\"\nversion = \"0.0.0\"\nedition = \"2021\"\npublish = false\n\n[workspace]\n\n[dependencies.aldrin]\npath = \"{}/aldrin\"\ndefault-features = false\nfeatures = [\"macros\", \"introspection\"]\n\n[dependencies.bytes]\nversion = \"1\"\ndefault-features = false\n\n[profile.dev]\ndebug = 0\nopt-level = 0\nincremental = false\n", crate::repo_root()),
    )?;
    std::fs::write(dir.join("src/handwritten.rs"), HANDWRITTEN)?;
    let mut main = String::from(RUNNER_HEAD);
    let mut dispatch = String::from("fn dispatch(key: &str, b: &[u8]) -> Option<Result<Vec<u8>, String>> {\n    match key {\n");
    let mut ids = String::from("fn type_ids() {\n");
    // one module tree per path: `g::s<i>` holds the code generator's output, `m::s<i>` what
    // `generate!` expands to; imported types are found as `super::s<j>::Type` in both
    let mut gmod = String::from("mod g {\n");
    let mut mmod = String::from("mod m {\n");
    for it in items {
        let i = it.idx;
        std::fs::write(dir.join(format!("schemas/s{}.aldrin", i)), &it.text)?;
        if let Some(code) = &it.gen_code {
            std::fs::write(dir.join(format!("src/gen_s{}.rs", i)), code)?;
            let _ = writeln!(gmod, "    #[path = \"{}\"] pub mod s{};", dir.join(format!("src/gen_s{}.rs", i)).display(), i);
        }
        let _ = writeln!(mmod, "    ::aldrin::generate!(\"schemas/s{}.aldrin\", include = \"schemas\", introspection = true);", i);
        for d in &it.schema.defs {
            if let ADef::Service(sv) = d {
                if it.gen_code.is_some() {
                    let _ = writeln!(ids, "    println!(\"id {}/g/{} {{}}\", g::s{}::r#{}Proxy::introspection().type_id().0);", i, sv.name, i, sv.name);
                }
                let _ = writeln!(ids, "    println!(\"id {}/m/{} {{}}\", m::s{}::r#{}Proxy::introspection().type_id().0);", i, sv.name, i, sv.name);
            }
        }
        for d in &wire_types(it, None) {
            let n = d.name();
            if it.gen_code.is_some() {
                let _ = writeln!(dispatch, "        \"{}/g/{}\" => Some(rt::<g::s{}::r#{}>(b)),", i, n, i, n);
                let _ = writeln!(ids, "    println!(\"id {}/g/{} {{}}\", TypeId::compute::<g::s{}::r#{}>().0);", i, n, i, n);
            }
            let _ = writeln!(dispatch, "        \"{}/m/{}\" => Some(rt::<m::s{}::r#{}>(b)),", i, n, i, n);
            let _ = writeln!(ids, "    println!(\"id {}/m/{} {{}}\", TypeId::compute::<m::s{}::r#{}>().0);", i, n, i, n);
        }
    }
    gmod.push_str("}\n");
    mmod.push_str("}\n");
    main.push_str(&gmod);
    main.push_str(&mmod);
    dispatch.push_str("        _ => None,\n    }\n}\n");
    ids.push_str("}\n");
    main.push_str(&dispatch);
    main.push_str(&ids);
    std::fs::write(dir.join("src/main.rs"), main)
}

fn build(dir: &Path) -> (bool, String) {
    let target = scratch_root().join("target/corpus");
    let o = Command::new("cargo")
        .args(["build", "--offline", "--quiet"])
        .current_dir(dir)
        .env("CARGO_TARGET_DIR", &target)
        .env("CARGO_NET_OFFLINE", "true")
        .env("RUSTFLAGS", "-Awarnings")
        .output();
    match o {
        Ok(o) => (o.status.success(), String::from_utf8_lossy(&o.stderr).into_owned()),
        Err(e) => (false, format!("cannot start cargo: {}", e)),
    }
}

fn equal_up_to_order(a: &RV, b: &RV) -> bool {
    fn canon(v: &RV) -> RV {
        match v {
            RV::Struct(f) => {
                let mut f: Vec<(u32, RV)> = f.iter().map(|(i, x)| (*i, canon(x))).collect();
                f.sort();
                RV::Struct(f)
            }
            RV::Some(x) => RV::Some(Box::new(canon(x))),
            RV::Vec(x) => RV::Vec(x.iter().map(canon).collect()),
            RV::Enum(i, x) => RV::Enum(*i, Box::new(canon(x))),
            RV::Map(k, e) => {
                let mut e: Vec<_> = e.iter().map(|(k, x)| (k.clone(), canon(x))).collect();
                e.sort();
                RV::Map(*k, e)
            }
            other => other.normalize(),
        }
    }
    canon(a) == canon(b)
}

impl C16 {
    pub(crate) fn batch(&self, ctx: &Ctx, out: &mut Outcome, batch: u64, nschemas: usize) {
        let mut rng = Rng::derive(ctx.seed, 0xC16, batch);
        // 1. schemas and generator output
        let mut items: Vec<Item> = Vec::new();
        for idx in 0..nschemas {
            if idx == 0 {
                // fixed shapes that a random draw may miss
                use crate::schema::gen::{AField, AStruct, AType, AVariant, AEnum, Prelude};
                let fb = |n: &str| Some((Prelude::default(), n.to_string()));
                let schema = ASchema {
                    name: "s0".into(),
                    header: vec![],
                    imports: vec![],
                    defs: vec![
                        ADef::Struct(AStruct { pre: Prelude::default(), name: "OnlyFallback".into(), fields: vec![], fallback: fb("unknown_fields") }),
                        ADef::Struct(AStruct { pre: Prelude::default(), name: "Empty".into(), fields: vec![], fallback: None }),
                        ADef::Struct(AStruct {
                            pre: Prelude::default(),
                            name: "Holder".into(),
                            fields: vec![
                                AField { pre: Prelude::default(), name: "inner".into(), id: 0, required: true, ty: AType::Named("OnlyFallback".into()) },
                                AField { pre: Prelude::default(), name: "maybe".into(), id: u32::MAX, required: false, ty: AType::Option(Box::new(AType::Named("Empty".into()))) },
                                AField { pre: Prelude::default(), name: "unit".into(), id: 7, required: true, ty: AType::Unit },
                            ],
                            fallback: fb("rest"),
                        }),
                        ADef::Struct(AStruct {
                            pre: Prelude::default(),
                            name: "ByteShapes".into(),
                            fields: vec![
                                AField { pre: Prelude::default(), name: "a".into(), id: 1, required: true, ty: AType::Vec(Box::new(AType::U8)) },
                                AField { pre: Prelude::default(), name: "b".into(), id: 2, required: true, ty: AType::Array(Box::new(AType::U8), crate::schema::gen::ALen::Lit(3)) },
                                AField { pre: Prelude::default(), name: "c".into(), id: 3, required: false, ty: AType::Vec(Box::new(AType::Vec(Box::new(AType::U8)))) },
                                AField { pre: Prelude::default(), name: "d".into(), id: 4, required: true, ty: AType::Vec(Box::new(AType::Box(Box::new(AType::U8)))) },
                                AField { pre: Prelude::default(), name: "e".into(), id: 5, required: true, ty: AType::Result(Box::new(AType::Vec(Box::new(AType::U8))), Box::new(AType::Set(Box::new(AType::U8)))) },
                                AField { pre: Prelude::default(), name: "f".into(), id: 6, required: true, ty: AType::Map(Box::new(AType::U8), Box::new(AType::Bytes)) },
                                AField { pre: Prelude::default(), name: "g".into(), id: 7, required: false, ty: AType::Option(Box::new(AType::Vec(Box::new(AType::I8)))) },
                            ],
                            fallback: None,
                        }),
                        ADef::Newtype { pre: Prelude::default(), name: "KeyC".into(), ty: AType::U32 },
                        ADef::Newtype { pre: Prelude::default(), name: "KeyB".into(), ty: AType::Named("KeyC".into()) },
                        ADef::Newtype { pre: Prelude::default(), name: "KeyS".into(), ty: AType::String },
                        ADef::Newtype { pre: Prelude::default(), name: "KeyS2".into(), ty: AType::Named("KeyS".into()) },
                        ADef::Enum(AEnum {
                            pre: Prelude::default(),
                            name: "Choice".into(),
                            variants: vec![
                                AVariant { pre: Prelude::default(), name: "Nothing".into(), id: 0, ty: None },
                                AVariant { pre: Prelude::default(), name: "Unit".into(), id: 1, ty: Some(AType::Unit) },
                                AVariant { pre: Prelude::default(), name: "Held".into(), id: u32::MAX, ty: Some(AType::Named("Holder".into())) },
                            ],
                            fallback: fb("Other"),
                        }),
                    ],
                };
                let text = Layout { r: &mut rng, wild: 0 }.render(&schema);
                let parser = Parser::parse(MemoryResolver::new("s0".to_string(), Ok(text.clone())));
                out.eval();
                let mut o = Options::new();
                o.introspection = true;
                let code = if parser.errors().is_empty() { Generator::new(&o, &parser).rust(&RustOptions::new()).ok().map(|c| c.module_content) } else { None };
                if code.is_none() {
                    out.inconclusive("the fixed shape schema was rejected");
                }
                items.push(Item { idx, schema, text, gen_code: code });
                continue;
            }
            if idx == 1 && items.len() == 1 {
                // fixed shapes across a schema boundary: newtype chains used as keys, imported
                // types in every position
                use crate::schema::gen::{AField, AStruct, AType, Prelude};
                let ext = |n: &str| AType::Extern("s0".into(), n.into());
                let f = |name: &str, id: u32, required: bool, ty: AType| AField { pre: Prelude::default(), name: name.into(), id, required, ty };
                let schema = ASchema {
                    name: "s1".into(),
                    header: vec![],
                    imports: vec![(vec![], "s0".into())],
                    defs: vec![
                        ADef::Newtype { pre: Prelude::default(), name: "KeyA".into(), ty: ext("KeyB") },
                        ADef::Newtype { pre: Prelude::default(), name: "KeyA2".into(), ty: AType::Named("KeyA".into()) },
                        ADef::Newtype { pre: Prelude::default(), name: "Wrapped".into(), ty: ext("Holder") },
                        ADef::Struct(AStruct {
                            pre: Prelude::default(),
                            name: "UsesKeys".into(),
                            fields: vec![
                                f("m", 1, true, AType::Map(Box::new(AType::Named("KeyA".into())), Box::new(AType::U8))),
                                f("s", 2, true, AType::Set(Box::new(AType::Named("KeyA2".into())))),
                                f("t", 3, false, AType::Map(Box::new(ext("KeyB")), Box::new(ext("Choice")))),
                                f("u", 4, true, AType::Set(Box::new(ext("KeyS2")))),
                                f("w", 5, false, AType::Vec(Box::new(AType::Named("Wrapped".into())))),
                                f("x", 6, true, AType::Option(Box::new(ext("ByteShapes")))),
                            ],
                            fallback: None,
                        }),
                    ],
                };
                let text = Layout { r: &mut rng, wild: 0 }.render(&schema);
                let mut resolver = MemoryResolver::new("s1".to_string(), Ok(text.clone()));
                resolver.add("s0".to_string(), Ok(items[0].text.clone()));
                let parser = Parser::parse(resolver);
                out.eval();
                let mut o = Options::new();
                o.introspection = true;
                let code = if parser.errors().is_empty() { Generator::new(&o, &parser).rust(&RustOptions::new()).ok().map(|c| c.module_content) } else { None };
                if code.is_none() {
                    out.inconclusive(format!("the second fixed shape schema was rejected: {:?}", parser.errors().iter().map(|e| format!("{:?}", e)).take(2).collect::<Vec<_>>()));
                }
                out.count("schemas_with_imports", 1);
                items.push(Item { idx, schema, text, gen_code: code });
                continue;
            }
            let cfg = GenCfg { valid: true, hostile_docs: true, max_defs: 6, comments: rng.bool(), attrs: false, plain_types_only: true };
            let mut g = SchemaGen::new(&mut rng, cfg);
            let name = format!("s{}", idx);
            // up to two earlier schemas may be imported (their types used as `s<j>::Type`)
            let mut importable: Vec<(String, Vec<String>)> = Vec::new();
            if !items.is_empty() {
                for _ in 0..g.r.below(3) {
                    let it = &items[g.r.below(items.len())];
                    if it.gen_code.is_none() || importable.iter().any(|(n, _)| *n == it.schema.name) {
                        continue;
                    }
                    let types: Vec<String> = it.schema.defs.iter().filter(|d| matches!(d, ADef::Struct(_) | ADef::Enum(_) | ADef::Newtype { .. })).map(|d| d.name().to_string()).collect();
                    if !types.is_empty() {
                        // imported newtypes over key types can be keys here as well
                        let world: Vec<&ASchema> = items.iter().map(|i| &i.schema).collect();
                        let env = Env { schema: &it.schema, world: &world };
                        for d in &it.schema.defs {
                            if let ADef::Newtype { name, .. } = d {
                                if crate::schema::conform::resolves_to_key(&env, &crate::schema::gen::AType::Named(name.clone())) {
                                    g.ext_key_types.push((it.schema.name.clone(), name.clone()));
                                }
                            }
                        }
                        importable.push((it.schema.name.clone(), types));
                    }
                }
            }
            let schema = g.schema(&name, &importable);
            drop(g);
            if !schema.imports.is_empty() {
                out.count("schemas_with_imports", 1);
            }
            let text = Layout { r: &mut rng, wild: (idx % 2) as u32 }.render(&schema);
            let mut resolver = MemoryResolver::new(name.clone(), Ok(text.clone()));
            for it in &items {
                resolver.add(it.schema.name.clone(), Ok(it.text.clone()));
            }
            let parser = Parser::parse(resolver);
            out.eval();
            out.distinct_case(fnv(text.as_bytes()));
            if !parser.errors().is_empty() {
                out.count("generator_schema_with_errors", 1);
                continue;
            }
            let mut o = Options::new();
            o.client = true;
            o.server = true;
            o.introspection = true;
            let code = match Generator::new(&o, &parser).rust(&RustOptions::new()) {
                Ok(c) => Some(c.module_content),
                Err(e) => {
                    out.violation("generator-error", format!("Generator::rust failed on an error-free schema: {}", e), json!({"schema": text}));
                    None
                }
            };
            if out.samples.len() < 3 {
                out.sample(json!({"schema": text.chars().take(700).collect::<String>()}));
            }
            items.push(Item { idx, schema, text, gen_code: code });
        }
        out.count("schemas", items.len() as u64);
        // 2. corpus crate; rustc is the monitor for "compiles"
        let dir = scratch_root().join(format!("scratch/c16-{}-{}", std::process::id(), batch));
        let _ = std::fs::remove_dir_all(&dir);
        let mut live: Vec<usize> = (0..items.len()).collect();
        let mut built = false;
        for round in 0..4 {
            let refs: Vec<&Item> = live.iter().map(|&i| &items[i]).collect();
            if let Err(e) = write_corpus(&dir, &refs) {
                out.inconclusive(format!("cannot write the corpus crate: {}", e));
                return;
            }
            let _ = std::fs::remove_file(dir.join("src/.stale"));
            let (ok, err) = build(&dir);
            if ok {
                built = true;
                break;
            }
            if err.contains("cannot start cargo") || err.contains("failed to select a version") || err.contains("no matching package") {
                out.inconclusive(format!("the corpus crate could not be built for reasons outside the subject: {}", err.lines().take(3).collect::<Vec<_>>().join(" | ")));
                let _ = std::fs::remove_dir_all(&dir);
                return;
            }
            // blame the schemas whose files are named by rustc
            let mut blamed: Vec<usize> = Vec::new();
            for &i in &live {
                let idx = items[i].idx;
                if err.contains(&format!("gen_s{}.rs", idx)) || err.contains(&format!("schemas/s{}.aldrin", idx)) || err.contains(&format!("g::s{}::", idx)) || err.contains(&format!("m::s{}::", idx)) {
                    blamed.push(i);
                }
            }
            let first_error: String = err.lines().filter(|l| l.starts_with("error")).take(3).collect::<Vec<_>>().join(" | ");
            if blamed.is_empty() {
                out.violation(
                    "generated-code-does-not-compile",
                    format!("the corpus of generated code does not compile (no single schema could be blamed): {}", err.lines().take(12).collect::<Vec<_>>().join(" | ")),
                    json!({"seed": ctx.seed, "batch": batch, "rustc": err.chars().take(3000).collect::<String>()}),
                );
                let _ = std::fs::remove_dir_all(&dir);
                return;
            }
            for &b in &blamed {
                let ctxlines: Vec<&str> = err.lines().filter(|l| l.contains("error") || l.contains(&format!("gen_s{}.rs", items[b].idx))).take(8).collect();
                out.violation(
                    format!("generated-code-does-not-compile:{}", first_error.split('[').nth(1).and_then(|s| s.split(']').next()).unwrap_or("rustc")),
                    format!("rustc rejects the code generated for a valid schema: {}", ctxlines.join(" | ")),
                    json!({"seed": ctx.seed, "batch": batch, "schema": items[b].text, "rustc": err.chars().take(2500).collect::<String>()}),
                );
            }
            live.retain(|i| !blamed.contains(i));
            // whatever imports a dropped schema cannot be built either: dropped without blame
            loop {
                let names: Vec<String> = live.iter().map(|&i| items[i].schema.name.clone()).collect();
                let before = live.len();
                live.retain(|&i| items[i].schema.imports.iter().all(|(_, imp)| names.contains(imp)));
                if live.len() == before {
                    break;
                }
                out.count("schemas_dropped_with_their_import", (before - live.len()) as u64);
            }
            if live.is_empty() || round == 3 {
                break;
            }
        }
        if !built {
            let _ = std::fs::remove_dir_all(&dir);
            return;
        }
        out.count("schemas_compiled_both_paths", live.len() as u64);
        // 3. vectors from the schema
        struct Vector {
            key: String,
            bytes: Vec<u8>,
            expect_ok: Option<RV>,
            what: String,
            item: usize,
        }
        let mut vectors: Vec<Vector> = Vec::new();
        let world: Vec<&ASchema> = items.iter().map(|i| &i.schema).collect();
        for &li in &live {
            let it = &items[li];
            let env = Env { schema: &it.schema, world: &world };
            let types = wire_types(it, Some(out));
            out.count("inline_service_types", types.iter().filter(|d| !it.schema.defs.iter().any(|x| x.name() == d.name())).count() as u64);
            for d in &types {
                for n in 0..6 {
                    let Some(v) = conforming_def(&env, d, &mut rng, 0, true) else {
                        out.count("types_without_finite_value", 1);
                        break;
                    };
                    if v.depth() > 30 {
                        continue;
                    }
                    let nf = normal_form_def(&env, d, &v);
                    let bytes = match n % 3 {
                        0 => rv::encode_epoch(&v, Epoch::V2),
                        1 => rv::encode_epoch(&v, Epoch::V1),
                        _ => rv::encode_mixed(&v, &mut rng, false),
                    };
                    for path in ["g", "m"] {
                        if path == "g" && it.gen_code.is_none() {
                            continue;
                        }
                        vectors.push(Vector { key: format!("{}/{}/{}", it.idx, path, d.name()), bytes: bytes.clone(), expect_ok: Some(nf.clone()), what: format!("conforming value {}", v.render(300)), item: li });
                    }
                    if n == 0 {
                        for (label, m) in mutants(&env, d, &v, &mut rng) {
                            let mb = rv::encode_epoch(&m, if rng.bool() { Epoch::V1 } else { Epoch::V2 });
                            for path in ["g", "m"] {
                                if path == "g" && it.gen_code.is_none() {
                                    continue;
                                }
                                vectors.push(Vector { key: format!("{}/{}/{}", it.idx, path, d.name()), bytes: mb.clone(), expect_ok: None, what: format!("{}: {}", label, m.render(300)), item: li });
                            }
                        }
                    }
                }
            }
        }
        let mut vf = String::new();
        for v in &vectors {
            let _ = writeln!(vf, "{} {}", v.key, hex(&v.bytes));
        }
        let vpath = dir.join("vectors.txt");
        if std::fs::write(&vpath, vf).is_err() {
            out.inconclusive("cannot write the vector file");
            return;
        }
        let bin = scratch_root().join("target/corpus/debug/corpus");
        let run = Command::new(&bin).arg(&vpath).output();
        let Ok(run) = run else {
            out.inconclusive("cannot start the corpus runner");
            return;
        };
        let stdout = String::from_utf8_lossy(&run.stdout).into_owned();
        if !run.status.success() {
            out.violation("runner-crashed", format!("the runner over the generated types died: {:?} {}", run.status, String::from_utf8_lossy(&run.stderr).chars().take(500).collect::<String>()), json!({"seed": ctx.seed, "batch": batch}));
        }
        // 4. verdicts
        let mut ids: BTreeMap<String, String> = BTreeMap::new();
        let mut results: BTreeMap<usize, (String, String)> = BTreeMap::new();
        for line in stdout.lines() {
            let parts: Vec<&str> = line.splitn(3, ' ').collect();
            if parts.len() < 2 {
                continue;
            }
            if parts[0] == "id" && parts.len() == 3 {
                ids.insert(parts[1].to_string(), parts[2].to_string());
            } else if parts[0] == "hw" {
                out.count("handwritten_derive_observations", 1);
                let l = line.to_string();
                if let Some(rest) = l.strip_prefix("hw type-id ") {
                    let p: Vec<&str> = rest.split(' ').collect();
                    if p.len() == 3 && p[1] != p[2] {
                        out.violation(format!("derive-implicit-ids:type-id:{}", p[0]), format!("hand-written derive with implicit ids and its all-explicit twin have different type ids: {}", rest), json!({"line": l}));
                    }
                } else if l.contains("-> Err") || (l.contains("hw wire") && !wire_equal(&l)) {
                    out.violation("derive-implicit-ids:wire", format!("a value serialized by a derive with implicit ids does not decode to the same value with explicit ids: {}", l), json!({"line": l}));
                }
            } else if let Ok(i) = parts[0].parse::<usize>() {
                results.insert(i, (parts[1].to_string(), parts.get(2).unwrap_or(&"").to_string()));
            }
        }
        for (i, v) in vectors.iter().enumerate() {
            let it = &items[v.item];
            let replay = json!({"seed": ctx.seed, "batch": batch, "type": v.key, "schema": it.text, "value": v.what, "bytes_hex": hex(&v.bytes)});
            out.count("vectors", 1);
            match (results.get(&i), &v.expect_ok) {
                (None, _) => out.inconclusive("the runner did not report on every vector"),
                (Some((st, payload)), Some(nf)) => {
                    out.count("conforming_vectors", 1);
                    if st != "ok" && payload.starts_with("BYVALUE") {
                        out.violation("by-value-serialization-differs", format!("type {}: serializing the decoded value by value and by reference give different results ({}) for {}", v.key, payload, v.what), replay);
                    } else if st != "ok" {
                        out.violation("conforming-value-rejected", format!("type {} rejects a value that conforms to its schema type ({}): {}", v.key, payload, v.what), replay);
                    } else {
                        match rv::ref_skip(&unhex(payload)) {
                            Ok((back, n)) if n == payload.len() / 2 => {
                                if !equal_up_to_order(&back, nf) {
                                    out.violation("re-encoding-differs", format!("type {}: decode + encode of {} yields {} (expected {})", v.key, v.what, back.render(300), nf.render(300)), replay);
                                }
                            }
                            _ => out.violation("re-encoding-ill-formed", format!("type {} re-encoded to bytes the reference decoder rejects", v.key), replay),
                        }
                    }
                }
                (Some((st, _)), None) => {
                    out.count("nonconforming_vectors", 1);
                    if st == "ok" {
                        out.violation(format!("nonconforming-value-accepted:{}", v.what.split(':').next().unwrap_or("").split(' ').filter(|w| w.parse::<u64>().is_err()).collect::<Vec<_>>().join("-")), format!("type {} accepts a value that does not conform: {}", v.key, v.what), replay);
                    } else if st == "panic" {
                        out.violation("decode-panics", format!("type {} panics on {}", v.key, v.what), replay);
                    }
                }
            }
        }
        // generator and macro agree on type ids
        for (k, v) in &ids {
            if let Some(rest) = k.split("/g/").nth(1) {
                let mk = format!("{}/m/{}", k.split('/').next().unwrap_or(""), rest);
                out.count("type_ids_compared", 1);
                if let Some(mv) = ids.get(&mk) {
                    if mv != v {
                        out.violation("type-id-generator-vs-macro", format!("type {}: the code generator's output has type id {}, the generate! macro's {}", k, v, mv), json!({"seed": ctx.seed, "batch": batch, "type": k}));
                    }
                }
            }
        }
        // compiled code and IR built by hand from the abstract schema agree
        for &li in &live {
            let it = &items[li];
            let mut defs = wire_types(it, None);
            defs.extend(it.schema.defs.iter().filter(|d| matches!(d, ADef::Service(_))).cloned());
            for d in &defs {
                let Some(expected) = super::c20::type_id_from_schema(&world, &it.schema.name, d) else {
                    out.count("type_ids_closure_too_large_for_slots", 1);
                    continue;
                };
                for path in ["g", "m"] {
                    let k = format!("{}/{}/{}", it.idx, path, d.name());
                    let Some(got) = ids.get(&k) else { continue };
                    out.count(if matches!(d, ADef::Service(_)) { "service_ids_vs_hand_built_ir" } else { "type_ids_vs_hand_built_ir" }, 1);
                    if *got != expected {
                        out.violation(
                            format!("type-id-compiled-vs-hand-built-ir:{}", match d { ADef::Struct(_) => "struct", ADef::Enum(_) => "enum", ADef::Newtype { .. } => "newtype", _ => "service" }),
                            format!("{} {}: compiled code ({}) has type id {}, the IR built by hand from the same schema {}", match d { ADef::Service(_) => "service", _ => "type" }, k, if path == "g" { "code generator" } else { "generate! macro" }, got, expected),
                            json!({"seed": ctx.seed, "batch": batch, "type": k, "schema": it.text}),
                        );
                    }
                }
            }
        }
        let _ = std::fs::remove_dir_all(&dir);
    }
}

fn wire_equal(line: &str) -> bool {
    // "hw wire Mixed B(9) -> Ok(B(9))"
    let Some((l, r)) = line.split_once(" -> ") else { return true };
    let lhs = l.splitn(4, ' ').nth(3).unwrap_or("");
    r == format!("Ok({})", lhs)
}

impl Check for C16 {
    fn id(&self) -> &'static str {
        "C16"
    }
    fn level(&self) -> &'static str {
        "exploration"
    }
    fn rule(&self) -> &'static str {
        "one evaluation = one generated valid schema (structs, enums, newtypes, services with inline types, consts used as array lengths, optional/required fields, fallbacks, generics over built-ins, arrays, results, maps/sets, recursive types through box, awkward identifiers, adversarial docs) run through aldrin-codegen's generator and the generate! macro into a scratch corpus crate that rustc must accept; per top-level type 6 conforming values from the reference conformance relation (both container encodings and mixed, optional fields absent/None/Some, unknown ids added, unknown variants for fallback enums) must decode and re-encode to their normal form, and every systematic non-conforming mutant (required field missing, field/payload of the wrong kind, unknown variant without fallback, wrong array length, wrong top-level kind) must be rejected; type ids of generator output and macro output must agree; hand-written derives with implicit ids must agree with their explicit twins. distinct = hash of the schema text"
    }
    fn assumptions(&self) -> Vec<String> {
        vec![
            "the conformance relation (harness/src/schema/conform.rs) is the harness's reading of the schema language's wire mapping".into(),
            "inline types of services are only monitored for 'compiles' (their generated names are not reconstructed)".into(),
            "rustc and cargo are trusted".into(),
        ]
    }
    fn total_cases(&self, _tier: Tier) -> u64 {
        0
    }
    fn budget_s(&self, tier: Tier) -> u64 {
        match tier {
            Tier::Quick => 300,
            Tier::Thorough => 3000,
        }
    }
    fn run_case(&self, _ctx: &Ctx, _idx: u64, _out: &mut Outcome) {}
    fn once(&self, ctx: &Ctx, out: &mut Outcome) {
        let (batches, per) = match ctx.tier {
            Tier::Quick => (1u64, 24usize),
            Tier::Thorough => (10, 40),
        };
        for b in 0..batches {
            self.batch(ctx, out, b, per);
        }
    }
    fn gates(&self, _tier: Tier, merged: &Outcome) -> Vec<String> {
        let mut g = Vec::new();
        for k in ["schemas_compiled_both_paths", "conforming_vectors", "nonconforming_vectors", "type_ids_compared", "handwritten_derive_observations"] {
            if merged.counters.get(k).copied().unwrap_or(0) == 0 {
                g.push(format!("{} is zero", k));
            }
        }
        g
    }
}
