//! C04: events. Broker level: generated event histories against the bus model (exact delivery
//! sets, 0<->1 notifications at the owner, ServiceDestroyed). Client level: real owners and
//! subscribers (several proxies per client, per-event and all-events subscriptions, proxies
//! dropped) under random schedules: every event emitted for a subscribed proxy arrives, in order,
//! i.e. the owner-side filter of the client library agrees with the broker's subscription state.

use super::buschecks::C04 as C04B;
use super::c06::{gen_program_focus, run_program};
use super::Check;
use crate::prng::{fnv, Rng};
use crate::report::{Ctx, Outcome, Tier};
use serde_json::json;

pub struct C04;

impl Check for C04 {
    fn id(&self) -> &'static str {
        "C04"
    }
    fn level(&self) -> &'static str {
        "exploration"
    }
    fn rule(&self) -> &'static str {
        "even case = one generated event history at the protocol level (subscribe/unsubscribe per event and all-events, service subscriptions, emits by owner and strangers, destroys, disconnects over 3 event ids) compared with the bus model; odd case = one (program, schedule) of real clients whose application tasks only run event steps (subscribe or subscribe-all through one of several proxies per client, ask the owner to emit n tagged events, read them in order, unsubscribe or not, drop proxies, calls) under a seeded random schedule. distinct = hash of the event log resp. schedule trace"
    }
    fn assumptions(&self) -> Vec<String> {
        let mut a = C04B.assumptions();
        a.push("client level: events are tagged per request; every event requested through a subscribed proxy must arrive in order before the reply-then-read sequence can finish (a missing event shows as a stuck task)".into());
        a
    }
    fn total_cases(&self, tier: Tier) -> u64 {
        match tier {
            Tier::Quick => 60000,
            Tier::Thorough => 4_000_000,
        }
    }
    fn run_case(&self, ctx: &Ctx, idx: u64, out: &mut Outcome) {
        if idx % 2 == 0 {
            return C04B.run_case(ctx, idx / 2, out);
        }
        let pidx = idx / 8;
        let mut prng = Rng::derive(ctx.seed, 0xC04, pidx);
        let prog = gen_program_focus(&mut prng, false, 2);
        let sched = Rng::derive(ctx.seed, 0xC04_5, idx).next_u64();
        let rep = run_program(&prog, sched, out);
        out.eval();
        out.count("client_level_runs", 1);
        if rep.polls >= 200 {
            out.distinct_case(rep.trace ^ fnv(&pidx.to_le_bytes()));
        }
        if let Some(w) = &rep.inconclusive {
            out.inconclusive(w.clone());
        }
        let tail: Vec<String> = rep.log.iter().rev().take(40).rev().cloned().collect();
        for (sig, detail) in &rep.fails {
            out.violation(format!("client:{}", sig), detail.clone(), json!({"case": idx, "seed": ctx.seed, "program": format!("{:?}", prog), "log_tail": tail}));
        }
    }
    fn gates(&self, tier: Tier, merged: &Outcome) -> Vec<String> {
        let mut g = C04B.gates(tier, merged);
        for op in ["api:subscribe", "api:subscribe_all", "api:next_event", "api:emit", "api:unsubscribe"] {
            if merged.counters.get(op).copied().unwrap_or(0) == 0 {
                g.push(format!("operation {} was never exercised", op));
            }
        }
        g
    }
}
