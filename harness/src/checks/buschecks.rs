//! C02, C03, C04, C05 (broker part), C10: histories on the protocol-level rig compared against
//! the executable bus model; each check owns the disagreements about its own message classes.

use super::Check;
use crate::bus::gen::Profile;
use crate::bus::hist::{report, run_history, HistOpts};
use crate::bus::profiles;
use crate::report::{Ctx, Outcome, Tier};

pub struct BusCheck {
    pub id: &'static str,
    pub own: &'static [&'static str],
    pub profile: fn() -> Profile,
    pub rule: &'static str,
    pub quick: u64,
    pub thorough: u64,
    pub must_see: &'static [&'static str],
}

impl Check for BusCheck {
    fn id(&self) -> &'static str {
        self.id
    }
    fn level(&self) -> &'static str {
        "exploration"
    }
    fn rule(&self) -> &'static str {
        self.rule
    }
    fn assumptions(&self) -> Vec<String> {
        vec![
            "the executable bus model (harness/src/bus/model.rs) is the reading of the property statement the verdict is relative to".into(),
            "the broker handles one queued event at a time, so every concurrent execution equals the dequeue order the scripted executor constructs".into(),
            "transport = in-memory message pipe (no byte-level framing on this path; framing is C08/C14)".into(),
        ]
    }
    fn total_cases(&self, tier: Tier) -> u64 {
        match tier {
            Tier::Quick => self.quick,
            Tier::Thorough => self.thorough,
        }
    }
    fn run_case(&self, ctx: &Ctx, idx: u64, out: &mut Outcome) {
        let rng = crate::prng::Rng::derive(ctx.seed, 0xB05, idx);
        let mut profile = (self.profile)();
        if self.id == "C11" && idx % 4 == 3 {
            // "afterwards a well-behaved connection is still served correctly": every fourth
            // history is one of the well-behaved workloads with more peers that die in every way
            use crate::bus::gen::Op;
            let fs: [fn() -> Profile; 6] = [profiles::calls, profiles::registry, profiles::events, profiles::channels, profiles::listeners, profiles::introspection];
            profile = fs[((idx / 4) % 6) as usize]();
            for (op, w) in profile.weights.iter_mut() {
                if matches!(op, Op::DisconnectDrop | Op::DisconnectMute | Op::DisconnectClose) {
                    *w *= 3;
                }
            }
            out.count("histories_with_well_behaved_profile", 1);
        }
        if ctx.tier == Tier::Thorough && idx % 4 == 3 {
            profile.ops *= 3;
        }
        let res = run_history(rng, profile, &HistOpts::default(), out);
        report(self.own, &res, out, idx, ctx.seed, 97);
    }
    fn gates(&self, _tier: Tier, merged: &Outcome) -> Vec<String> {
        let mut g = Vec::new();
        let seen = merged.sets.get("kinds_delivered");
        for k in self.must_see {
            if !seen.map(|s| s.contains(*k)).unwrap_or(false) {
                g.push(format!("message kind {} was never delivered by the broker in this run", k));
            }
        }
        g
    }
}

pub const C02: BusCheck = BusCheck {
    id: "C02",
    own: &["C02"],
    profile: profiles::calls,
    rule: "one case = one generated history (2-6 protocol-level connections of random versions 1.14-1.20, ~60 operations in bursts of 1-5 queued inputs) run against the real broker and compared delivery by delivery with the bus model; distinct = hash of the full event log, non-trivial = at least 5 operations dequeued",
    quick: 60000,
    thorough: 2_000_000,
    must_see: &["CallFunction", "CallFunction2", "CallFunctionReply", "AbortFunctionCall"],
};

pub const C03: BusCheck = BusCheck {
    id: "C03",
    own: &["C03"],
    profile: profiles::registry,
    rule: "one case = one generated registry history over a pool of 3 object x 3 service UUIDs (create/destroy, both create-service forms, queries, foreign and stale cookies, disconnects) compared with the bus model; distinct = hash of the event log, non-trivial = at least 5 operations",
    quick: 60000,
    thorough: 2_000_000,
    must_see: &["CreateObjectReply", "DestroyObjectReply", "CreateServiceReply", "DestroyServiceReply", "QueryServiceVersionReply", "QueryServiceInfoReply"],
};

pub const C04: BusCheck = BusCheck {
    id: "C04",
    own: &["C04"],
    profile: profiles::events,
    rule: "one case = one generated event history (subscribe/unsubscribe per event and all-events, service subscriptions, emits by owner and strangers, destroys, disconnects over 3 event ids) compared with the bus model; distinct = hash of the event log, non-trivial = at least 5 operations",
    quick: 60000,
    thorough: 2_000_000,
    must_see: &["EmitEvent", "SubscribeEvent", "UnsubscribeEvent", "SubscribeAllEvents", "UnsubscribeAllEvents", "ServiceDestroyed"],
};

pub const C10: BusCheck = BusCheck {
    id: "C10",
    own: &["C10"],
    profile: profiles::listeners,
    rule: "one case = one generated listener history (several listeners per connection, all six filter shapes over the UUID pool, three scopes, object/service churn, disconnects) compared with the bus model; distinct = hash of the event log, non-trivial = at least 5 operations",
    quick: 60000,
    thorough: 2_000_000,
    must_see: &["EmitBusEvent", "BusListenerCurrentFinished", "StartBusListenerReply", "StopBusListenerReply"],
};

pub const C05B: BusCheck = BusCheck {
    id: "C05",
    own: &["C05"],
    profile: profiles::channels,
    rule: "one case = one generated channel history (create/claim/close/send-item/add-capacity/disconnect on both ends by 2-5 connections, capacities 0,1,3,4,5,16,u32::MAX-1,u32::MAX, senders within and beyond their announced credit, overflowing grants) compared with the bus model; distinct = hash of the event log, non-trivial = at least 5 operations",
    quick: 60000,
    thorough: 2_000_000,
    must_see: &["ItemReceived", "AddChannelCapacity", "ChannelEndClaimed", "ChannelEndClosed", "ClaimChannelEndReply", "CloseChannelEndReply"],
};

pub const C11: BusCheck = BusCheck {
    id: "C11",
    own: &["*"],
    profile: profiles::abuse,
    rule: "one case = one hostile history (3-10 connections of random versions; ~150 inputs in bursts of up to 8: arbitrary messages of all 63 kinds from upstream's Arbitrary derive with ids redirected to live, stale and never-issued pools and payloads well-formed or garbage, wrong-direction and too-new kinds, duplicate serials, replies by strangers, interleaved with connects and all four kinds of disconnects) against the real broker; monitors: panic around every poll, quiescence within the round budget, and every delivery to every connection (abusers, bystanders, probes alike) compared with the bus model; distinct = hash of the event log",
    quick: 48000,
    thorough: 1_600_000,
    must_see: &["CallFunction", "ItemReceived", "SyncReply", "ServiceDestroyed", "ChannelEndClosed"],
};
