//! C07 — decoding untrusted bytes is total; skipping agrees with decoding (DESIGN.md §3).

use super::Check;
use crate::codec::mutate;
use crate::codec::real;
use crate::codec::rv::{self, Rd, RefErr, RV};
use crate::guard::{guarded, measured, panic_site};
use crate::prng::{fnv, Rng};
use crate::report::{hex, hex_trunc, Ctx, Outcome, Tier};
use aldrin_core::tags;
use aldrin_core::{
    Deserialize, DeserializeError, Deserializer, Serialize, SerializeError, SerializedValue,
    Serializer,
};
use serde_json::json;

pub struct C07;

const ALLOC_SLOPE: usize = 512;
const ALLOC_BASE: usize = 64 * 1024;

pub fn gen_input(seed: u64, idx: u64) -> (Vec<Vec<u8>>, &'static str, Rng) {
    let mut r = Rng::derive(seed, idx, 0xC07);
    let mode = idx % 10;
    let valid = |r: &mut Rng| -> Vec<u8> {
        let d = match r.below(6) {
            0 => r.range(30, 34),
            1 => r.range(5, 29),
            _ => r.range(1, 4),
        };
        let mut budget = r.range(2, 40);
        let v = rv::gen_value(r, d, &mut budget);
        match r.below(4) {
            0 => rv::encode_epoch(&v, rv::Epoch::V1),
            1 => rv::encode_epoch(&v, rv::Epoch::V2),
            2 => rv::encode_mixed(&v, r, false),
            _ => rv::encode_mixed(&v, r, true),
        }
    };
    match mode {
        0 => {
            let n = r.range(1, 64);
            (vec![mutate::soup(&mut r, n)], "soup", r)
        }
        1 => (vec![valid(&mut r)], "valid", r),
        2..=6 => {
            let mut b = valid(&mut r);
            let other = valid(&mut r);
            let n = r.range(1, 3);
            for _ in 0..n {
                mutate::mutate(&mut r, &mut b, &other);
            }
            if b.is_empty() {
                b.push(0);
            }
            (vec![b], "mutated", r)
        }
        7 => {
            // every strict prefix of a small valid encoding
            let mut b = valid(&mut r);
            b.truncate(160);
            let out: Vec<Vec<u8>> = (1..b.len()).map(|n| b[..n].to_vec()).collect();
            if out.is_empty() {
                (vec![b], "prefixes", r)
            } else {
                (out, "prefixes", r)
            }
        }
        8 => {
            // hostile counts: container / string header with a huge length and little data
            let kind = *r.pick(&[13u8, 17, 18, 19, 27, 28, 29, 37, 38, 39, 22, 26, 36]);
            let mut b = vec![kind];
            match r.below(3) {
                0 => b.extend_from_slice(&[255, 255, 255, 255, 255]),
                1 => b.extend_from_slice(&[255, 255, 255, 255, 127]),
                _ => b.extend_from_slice(&[254, 255, 255, 255]),
            }
            let tail = r.range(0, 24);
            b.extend(mutate::soup(&mut r, tail));
            (vec![b], "hostile-count", r)
        }
        _ => {
            // nested hostile: valid prefix, then a hostile count deep inside
            let mut b = Vec::new();
            let depth = r.range(1, 31);
            for _ in 0..depth {
                match r.below(3) {
                    0 => b.push(1),
                    1 => b.extend_from_slice(&[40, 7]),
                    _ => b.extend_from_slice(&[43, 1]),
                }
            }
            b.extend_from_slice(&[*r.pick(&[17u8, 18, 19, 29, 39, 13]), 255, 255, 255, 255, 255]);
            let tail = r.range(0, 8);
            b.extend(mutate::soup(&mut r, tail));
            (vec![b], "hostile-nested", r)
        }
    }
}

impl Check for C07 {
    fn id(&self) -> &'static str {
        "C07"
    }
    fn level(&self) -> &'static str {
        "exploration"
    }
    fn rule(&self) -> &'static str {
        "case i = byte string(s) from (seed,i): kind-biased random soup, valid encodings of \
         generated values (legacy / current / mixed / non-minimal varints), 1-3 byte-level \
         mutations of those, every strict prefix of small encodings, hostile length fields (flat \
         and nested). Each input goes through real decode, kind, len()+skip, split-off as opaque \
         value, prefix-length measurement and unknown-field / unknown-variant capture + \
         re-serialization, all compared with the reference decoder/skipper, under a panic monitor \
         and a peak-allocation monitor (bound 512*len + 64 KiB). Every third case is a typed \
         decode: one of 28 static Rust target types (MaybeUninit-backed arrays [U; N] / [u8; N] \
         incl. N = 0 and nested, std collections, tuples, Option, Result) fed conforming values, \
         structurally perturbed values (wrong length, wrong-kind element in the middle, duplicate \
         / missing / unknown tuple fields, duplicate keys), values of other shapes and byte-level \
         mutants; accepted iff the reference value conforms to the target's shape, re-encoding \
         must give the normal form, and a live counter on the element type checks that every \
         constructed element is dropped exactly once (also when decoding fails half-way). distinct = FNV hash of the \
         input; non-trivial = at least 2 bytes and first byte a valid kind"
    }
    fn assumptions(&self) -> Vec<String> {
        vec![
            "reference skipper/decoder (harness/src/codec/rv.rs) is the specification of acceptance; error kinds are not compared".into(),
            "children run with RLIMIT_AS = 6 GiB so that a pre-allocation from an attacker-controlled count aborts the child and is attributed to its case".into(),
        ]
    }
    fn total_cases(&self, tier: Tier) -> u64 {
        match tier {
            Tier::Quick => 90_000,
            Tier::Thorough => 9_000_000,
        }
    }
    fn run_case(&self, ctx: &Ctx, idx: u64, out: &mut Outcome) {
        // every third case goes to the typed-decode lab (checks/typed.rs); interleaved so that
        // every slice of the case range (sanitizer shards) contains both kinds
        // (under Miri two out of three: a typed decode is one call, a dynamic case is up to 160)
        if idx % 3 == 2 || (ctx.mode == "miri" && idx % 3 == 1) {
            out.eval();
            super::typed::run_case(ctx, idx / 3, out);
            return;
        }
        let idx = (idx / 3) * 2 + idx % 3;
        let (inputs, label, _r) = gen_input(ctx.seed, idx);
        for (j, b) in inputs.iter().enumerate() {
            probe(ctx, idx, j, label, b, out);
        }
    }
    fn gates(&self, _tier: Tier, m: &Outcome) -> Vec<String> {
        let mut unmet = Vec::new();
        for key in ["decode_ok", "decode_err", "skip_ok_decode_err_utf8", "captured_structs", "captured_enums", "prefix_ok", "typed_accepted", "typed_rejected", "typed_failed_after_constructing_elements"] {
            if m.counters.get(key).copied().unwrap_or(0) == 0 {
                unmet.push(format!("observation class `{}` never occurred", key));
            }
        }
        unmet
    }
}

/// Probe: captures all fields of a struct as unknown fields and hands them back.
struct CaptureStruct(aldrin_core::UnknownFields);

impl Deserialize<tags::Value> for CaptureStruct {
    fn deserialize(d: Deserializer) -> Result<Self, DeserializeError> {
        let mut st = d.deserialize_struct()?;
        while let Some(field) = st.deserialize()? {
            field.add_to_unknown_fields()?;
        }
        st.finish_with(|unknown| Ok(CaptureStruct(unknown)))
    }
}

struct ReStruct<'a>(&'a aldrin_core::UnknownFields, bool);

impl Serialize<tags::Value> for ReStruct<'_> {
    fn serialize(self, s: Serializer) -> Result<(), SerializeError> {
        if self.1 {
            s.serialize_struct2_with_unknown_fields(self.0)?.finish()
        } else {
            s.serialize_struct1_with_unknown_fields(0, self.0)?.finish()
        }
    }
}

struct CaptureEnum(aldrin_core::UnknownVariant);

impl Deserialize<tags::Value> for CaptureEnum {
    fn deserialize(d: Deserializer) -> Result<Self, DeserializeError> {
        d.deserialize_enum()?.into_unknown_variant().map(CaptureEnum)
    }
}

struct ReEnum<'a>(&'a aldrin_core::UnknownVariant);

impl Serialize<tags::Value> for ReEnum<'_> {
    fn serialize(self, s: Serializer) -> Result<(), SerializeError> {
        s.serialize_unknown_variant(self.0)
    }
}

fn ref_at(b: &[u8], level: usize) -> Result<(RV, usize), RefErr> {
    let mut rd = Rd::new(b);
    let v = rv::decode_at(&mut rd, level)?;
    Ok((v, rd.pos))
}

pub fn probe(ctx: &Ctx, idx: u64, sub: usize, label: &str, b: &[u8], out: &mut Outcome) {
    out.eval();
    out.count(&format!("inputs[{}]", label), 1);
    if b.len() >= 2 && b[0] <= rv::k::MAX {
        out.distinct_case(fnv(b));
    }
    if idx < 20 && sub == 0 {
        out.sample(json!({"case": idx, "class": label, "bytes": hex_trunc(b, 64)}));
    }
    let rp = |extra: serde_json::Value| {
        json!({"property": "C07", "seed": ctx.seed, "case": idx, "sub": sub, "tier": ctx.tier.name(),
               "class": label, "bytes": hex(&b[..b.len().min(4096)]), "observed": extra})
    };
    let limit = ALLOC_SLOPE * b.len() + ALLOC_BASE;
    let check_alloc = |out: &mut Outcome, what: &str, peak: usize| {
        out.max("max_peak_alloc_bytes", peak as u64);
        out.max("max_alloc_ratio_x100", (peak as u64 * 100) / (b.len() as u64).max(1));
        if peak > limit {
            out.violation(
                format!("alloc-bound:{}", what),
                format!("{} allocated peak {} bytes for {} input bytes (bound {})", what, peak, b.len(), limit),
                rp(json!({"peak": peak})),
            );
        }
    };

    let reference = rv::ref_skip(b);
    let skip_ok_all = matches!(&reference, Ok((_, used)) if *used == b.len());
    let decode_expected: Option<RV> = match &reference {
        Ok((v, used)) if *used == b.len() && v.utf8_ok() => Some(v.normalize()),
        _ => None,
    };
    match &reference {
        Ok((v, used)) => {
            if *used == b.len() {
                if v.utf8_ok() {
                    out.count("decode_ok", 1);
                } else {
                    out.count("skip_ok_decode_err_utf8", 1);
                }
            } else {
                out.count("valid_prefix_with_trailing", 1);
            }
        }
        Err(e) => {
            out.count("decode_err", 1);
            out.count(&format!("ref_err[{:?}]", e), 1);
        }
    }

    // ---- decode ------------------------------------------------------------------------
    let (res, peak, _) = measured(|| guarded(|| real::decode(b)));
    check_alloc(out, "decode", peak);
    match res {
        Err(p) => out.violation(format!("panic:decode:{}", panic_site(&p)), p, rp(json!(null))),
        Ok(None) => {}
        Ok(Some(Ok(val))) => match &decode_expected {
            Some(exp) => {
                let got = rv::from_aldrin(&val);
                if got != *exp {
                    out.violation("decode-value-differs", format!("real {} vs reference {}", got.render(300), exp.render(300)), rp(json!(null)));
                }
            }
            None => out.violation(
                "decode-accepts-what-reference-rejects",
                format!("real decode Ok, reference says {:?}", reference.as_ref().map(|(_, u)| *u)),
                rp(json!({"decoded": rv::from_aldrin(&val).render(400)})),
            ),
        },
        Ok(Some(Err(e))) => {
            if decode_expected.is_some() {
                out.violation("decode-rejects-valid", format!("real decode Err({:?}), reference accepts all bytes", e), rp(json!(null)));
            }
        }
    }

    // ---- kind --------------------------------------------------------------------------
    match guarded(|| real::kind(b)) {
        Err(p) => out.violation(format!("panic:kind:{}", panic_site(&p)), p, rp(json!(null))),
        Ok(Some(Ok(k))) => {
            let kb: u8 = k.into();
            if kb != b[0] || b[0] > rv::k::MAX {
                out.violation("kind-wrong", format!("kind() = {:?} for first byte {}", k, b[0]), rp(json!(null)));
            }
        }
        Ok(Some(Err(_))) => {
            if b[0] <= rv::k::MAX {
                out.violation("kind-rejects-valid", format!("kind() failed for first byte {}", b[0]), rp(json!(null)));
            }
        }
        Ok(None) => {}
    }

    // ---- len + skip ---------------------------------------------------------------------
    let (res, peak, _) = measured(|| guarded(|| real::len_then_skip(b)));
    check_alloc(out, "skip", peak);
    match res {
        Err(p) => out.violation(format!("panic:skip:{}", panic_site(&p)), p, rp(json!(null))),
        Ok(Some(Ok(n))) => {
            if !skip_ok_all || n != b.len() {
                out.violation("skip-accepts-what-reference-rejects", format!("real len()={} + skip Ok, reference: {:?}", n, reference.as_ref().map(|(_, u)| *u)), rp(json!(null)));
            }
        }
        Ok(Some(Err(e))) => {
            if skip_ok_all {
                out.violation("skip-rejects-valid", format!("real skip Err({:?}), reference skip accepts all {} bytes", e, b.len()), rp(json!(null)));
            }
        }
        Ok(None) => {}
    }

    // ---- split off as opaque value --------------------------------------------------------
    let (res, peak, _) = measured(|| guarded(|| real::split_off(b)));
    check_alloc(out, "split-off", peak);
    match res {
        Err(p) => out.violation(format!("panic:split-off:{}", panic_site(&p)), p, rp(json!(null))),
        Ok(Some(Ok(bytes))) => {
            if !skip_ok_all || bytes != b {
                out.violation("split-off-wrong", format!("split-off returned {} bytes, reference {:?}", bytes.len(), reference.as_ref().map(|(_, u)| *u)), rp(json!(null)));
            }
        }
        Ok(Some(Err(e))) => {
            if skip_ok_all {
                out.violation("split-off-rejects-valid", format!("{:?}", e), rp(json!(null)));
            }
        }
        Ok(None) => {}
    }

    // ---- measured length of a value followed by other data ---------------------------------
    let ref2 = ref_at(b, 2);
    match guarded(|| real::prefix_len(b)) {
        Err(p) => out.violation(format!("panic:prefix-len:{}", panic_site(&p)), p, rp(json!(null))),
        Ok(Ok(n)) => {
            out.count("prefix_ok", 1);
            match &ref2 {
                Ok((_, used)) if *used == n => {}
                other => out.violation("prefix-len-differs", format!("real len() = {}, reference {:?}", n, other.as_ref().map(|(_, u)| *u)), rp(json!(null))),
            }
        }
        Ok(Err(e)) => {
            if ref2.is_ok() {
                out.violation("prefix-len-rejects-valid", format!("real len() Err({:?}), reference {:?}", e, ref2.as_ref().map(|(_, u)| *u)), rp(json!(null)));
            }
        }
    }

    // ---- unknown fields / unknown variant capture and re-serialization ---------------------
    if let Ok((v, used)) = &reference {
        if *used == b.len() {
            match v {
                RV::Struct(_) => capture_struct(b, v, out, &rp),
                RV::Enum(..) => capture_enum(b, v, out, &rp),
                _ => {}
            }
        }
    }
}

fn capture_struct(b: &[u8], v: &RV, out: &mut Outcome, rp: &dyn Fn(serde_json::Value) -> serde_json::Value) {
    let Some(sv) = real::sv_from_bytes(b) else { return };
    match guarded(|| sv.deserialize_as::<tags::Value, CaptureStruct>()) {
        Err(p) => out.violation(format!("panic:capture-struct:{}", panic_site(&p)), p, rp(json!(null))),
        Ok(Err(e)) => out.violation("capture-struct-rejects-valid", format!("{:?}", e), rp(json!(null))),
        Ok(Ok(cap)) => {
            out.count("captured_structs", 1);
            for epoch2 in [true, false] {
                match guarded(|| SerializedValue::serialize_as::<tags::Value>(ReStruct(&cap.0, epoch2))) {
                    Err(p) => out.violation(format!("panic:reserialize-struct:{}", panic_site(&p)), p, rp(json!(null))),
                    Ok(Err(e)) => out.violation("reserialize-struct-fails", format!("{:?}", e), rp(json!(null))),
                    Ok(Ok(sv2)) => {
                        let bytes = real::sv_bytes(&sv2);
                        match rv::ref_skip(&bytes) {
                            Ok((v2, used)) if used == bytes.len() && v2.normalize() == v.normalize() => {}
                            other => out.violation(
                                "unknown-fields-not-preserved",
                                format!("re-serialized struct decodes to {:?}", other.map(|(x, _)| x.render(300))),
                                rp(json!({"reserialized": hex_trunc(&bytes, 400)})),
                            ),
                        }
                    }
                }
            }
        }
    }
}

fn capture_enum(b: &[u8], v: &RV, out: &mut Outcome, rp: &dyn Fn(serde_json::Value) -> serde_json::Value) {
    let Some(sv) = real::sv_from_bytes(b) else { return };
    match guarded(|| sv.deserialize_as::<tags::Value, CaptureEnum>()) {
        Err(p) => out.violation(format!("panic:capture-enum:{}", panic_site(&p)), p, rp(json!(null))),
        Ok(Err(e)) => out.violation("capture-enum-rejects-valid", format!("{:?}", e), rp(json!(null))),
        Ok(Ok(cap)) => {
            out.count("captured_enums", 1);
            match guarded(|| SerializedValue::serialize_as::<tags::Value>(ReEnum(&cap.0))) {
                Err(p) => out.violation(format!("panic:reserialize-enum:{}", panic_site(&p)), p, rp(json!(null))),
                Ok(Err(e)) => out.violation("reserialize-enum-fails", format!("{:?}", e), rp(json!(null))),
                Ok(Ok(sv2)) => {
                    let bytes = real::sv_bytes(&sv2);
                    match rv::ref_skip(&bytes) {
                        Ok((v2, used)) if used == bytes.len() && v2.normalize() == v.normalize() => {}
                        other => out.violation(
                            "unknown-variant-not-preserved",
                            format!("re-serialized enum decodes to {:?}", other.map(|(x, _)| x.render(300))),
                            rp(json!({"reserialized": hex_trunc(&bytes, 400)})),
                        ),
                    }
                }
            }
        }
    }
}
