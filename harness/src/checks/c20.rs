//! C20: type ids are structural. Hand-built IR is fed to the real `TypeId::compute` through 64
//! const-generic `Introspectable` slots backed by a table, so that random, recursive and
//! mutually recursive layouts can be computed. Metamorphic oracle: documentation, declaration
//! order (slot numbering), field/variant insertion order and the order in which references are
//! visited do not change the id; every single semantic edit of a reachable node does. The
//! introspection record round-trips through its serialization and its references resolve.

use super::Check;
use crate::guard::{guarded, panic_site};
use crate::prng::{fnv, Rng};
use crate::report::{Ctx, Outcome, Tier};
use aldrin_core::introspection::ir::*;
use aldrin_core::introspection::{DynIntrospectable, Introspectable, Introspection, LexicalId, References};
use aldrin_core::{SerializedValue, ServiceUuid, TypeId};
use serde_json::json;
use std::cell::RefCell;
use uuid::Uuid;

pub struct C20;

#[derive(Clone, Debug, PartialEq)]
struct Fld {
    id: u32,
    name: String,
    doc: Option<String>,
    req: bool,
    ty: usize,
}

#[derive(Clone, Debug, PartialEq)]
struct Var {
    id: u32,
    name: String,
    doc: Option<String>,
    ty: Option<usize>,
}

#[derive(Clone, Debug, PartialEq)]
struct Func {
    id: u32,
    name: String,
    doc: Option<String>,
    args: Option<usize>,
    ok: Option<usize>,
    err: Option<usize>,
}

#[derive(Clone, Debug, PartialEq)]
struct Evt {
    id: u32,
    name: String,
    doc: Option<String>,
    ty: Option<usize>,
}

#[derive(Clone, Debug, PartialEq)]
enum Node {
    Leaf(u8),
    Opt(usize),
    Boxx(usize),
    VecT(usize),
    SetT(usize),
    Map(usize, usize),
    Res(usize, usize),
    Arr(usize, u32),
    Sender(usize),
    Receiver(usize),
    Struct { schema: String, name: String, doc: Option<String>, fields: Vec<Fld>, fallback: Option<(String, Option<String>)> },
    Enum { schema: String, name: String, doc: Option<String>, variants: Vec<Var>, fallback: Option<(String, Option<String>)> },
    Newtype { schema: String, name: String, doc: Option<String>, target: usize },
    Service { schema: String, name: String, doc: Option<String>, uuid: u128, version: u32, fns: Vec<Func>, events: Vec<Evt>, fn_fb: Option<(String, Option<String>)>, ev_fb: Option<(String, Option<String>)> },
}

#[derive(Clone, Debug, PartialEq)]
struct Graph {
    nodes: Vec<Node>,
    /// per node: a seed that permutes the order in which its references are announced
    ref_perm: Vec<u64>,
}

const LEAVES: usize = 19;

fn leaf_lex(k: u8) -> LexicalId {
    [
        LexicalId::BOOL,
        LexicalId::U8,
        LexicalId::I8,
        LexicalId::U16,
        LexicalId::I16,
        LexicalId::U32,
        LexicalId::I32,
        LexicalId::U64,
        LexicalId::I64,
        LexicalId::F32,
        LexicalId::F64,
        LexicalId::STRING,
        LexicalId::UUID,
        LexicalId::OBJECT_ID,
        LexicalId::SERVICE_ID,
        LexicalId::VALUE,
        LexicalId::BYTES,
        LexicalId::LIFETIME,
        LexicalId::UNIT,
    ][k as usize % LEAVES]
}

fn leaf_ir(k: u8) -> BuiltInTypeIr {
    [
        BuiltInTypeIr::Bool,
        BuiltInTypeIr::U8,
        BuiltInTypeIr::I8,
        BuiltInTypeIr::U16,
        BuiltInTypeIr::I16,
        BuiltInTypeIr::U32,
        BuiltInTypeIr::I32,
        BuiltInTypeIr::U64,
        BuiltInTypeIr::I64,
        BuiltInTypeIr::F32,
        BuiltInTypeIr::F64,
        BuiltInTypeIr::String,
        BuiltInTypeIr::Uuid,
        BuiltInTypeIr::ObjectId,
        BuiltInTypeIr::ServiceId,
        BuiltInTypeIr::Value,
        BuiltInTypeIr::Bytes,
        BuiltInTypeIr::Lifetime,
        BuiltInTypeIr::Unit,
    ][k as usize % LEAVES]
}

impl Graph {
    fn lex(&self, i: usize) -> LexicalId {
        match &self.nodes[i] {
            Node::Leaf(k) => leaf_lex(*k),
            Node::Opt(c) => LexicalId::option(self.lex(*c)),
            Node::Boxx(c) => LexicalId::box_ty(self.lex(*c)),
            Node::VecT(c) => LexicalId::vec(self.lex(*c)),
            Node::SetT(c) => LexicalId::set(self.lex(*c)),
            Node::Map(k, v) => LexicalId::map(self.lex(*k), self.lex(*v)),
            Node::Res(a, b) => LexicalId::result(self.lex(*a), self.lex(*b)),
            Node::Arr(c, n) => LexicalId::array(self.lex(*c), *n),
            Node::Sender(c) => LexicalId::sender(self.lex(*c)),
            Node::Receiver(c) => LexicalId::receiver(self.lex(*c)),
            Node::Struct { schema, name, .. } | Node::Enum { schema, name, .. } | Node::Newtype { schema, name, .. } => LexicalId::custom(schema, name),
            Node::Service { schema, name, .. } => LexicalId::service(schema, name),
        }
    }

    fn children(&self, i: usize) -> Vec<usize> {
        match &self.nodes[i] {
            Node::Leaf(_) => vec![],
            Node::Opt(c) | Node::Boxx(c) | Node::VecT(c) | Node::SetT(c) | Node::Arr(c, _) | Node::Sender(c) | Node::Receiver(c) => vec![*c],
            Node::Map(a, b) | Node::Res(a, b) => vec![*a, *b],
            Node::Struct { fields, .. } => fields.iter().map(|f| f.ty).collect(),
            Node::Enum { variants, .. } => variants.iter().filter_map(|v| v.ty).collect(),
            Node::Newtype { target, .. } => vec![*target],
            Node::Service { fns, events, .. } => fns.iter().flat_map(|f| [f.args, f.ok, f.err]).flatten().chain(events.iter().filter_map(|e| e.ty)).collect(),
        }
    }

    fn layout(&self, i: usize) -> LayoutIr {
        match &self.nodes[i] {
            Node::Leaf(k) => leaf_ir(*k).into(),
            Node::Opt(c) => BuiltInTypeIr::Option(self.lex(*c)).into(),
            Node::Boxx(c) => BuiltInTypeIr::Box(self.lex(*c)).into(),
            Node::VecT(c) => BuiltInTypeIr::Vec(self.lex(*c)).into(),
            Node::SetT(c) => BuiltInTypeIr::Set(self.lex(*c)).into(),
            Node::Map(k, v) => BuiltInTypeIr::Map(MapTypeIr::new(self.lex(*k), self.lex(*v))).into(),
            Node::Res(a, b) => BuiltInTypeIr::Result(ResultTypeIr::new(self.lex(*a), self.lex(*b))).into(),
            Node::Arr(c, n) => BuiltInTypeIr::Array(ArrayTypeIr::new(self.lex(*c), *n)).into(),
            Node::Sender(c) => BuiltInTypeIr::Sender(self.lex(*c)).into(),
            Node::Receiver(c) => BuiltInTypeIr::Receiver(self.lex(*c)).into(),
            Node::Struct { schema, name, doc, fields, fallback } => {
                let mut b = StructIr::builder(schema, name);
                if let Some(d) = doc {
                    b = b.doc(d);
                }
                for f in fields {
                    let mut fb = FieldIr::builder(f.id, &f.name, f.req, self.lex(f.ty));
                    if let Some(d) = &f.doc {
                        fb = fb.doc(d);
                    }
                    b = b.field(fb.finish());
                }
                if let Some((n, d)) = fallback {
                    let mut fb = StructFallbackIr::builder(n);
                    if let Some(d) = d {
                        fb = fb.doc(d);
                    }
                    b = b.fallback(fb.finish());
                }
                b.finish().into()
            }
            Node::Enum { schema, name, doc, variants, fallback } => {
                let mut b = EnumIr::builder(schema, name);
                if let Some(d) = doc {
                    b = b.doc(d);
                }
                for v in variants {
                    let mut vb = VariantIr::builder(v.id, &v.name);
                    if let Some(d) = &v.doc {
                        vb = vb.doc(d);
                    }
                    if let Some(t) = v.ty {
                        vb = vb.variant_type(self.lex(t));
                    }
                    b = b.variant(vb.finish());
                }
                if let Some((n, d)) = fallback {
                    let mut fb = EnumFallbackIr::builder(n);
                    if let Some(d) = d {
                        fb = fb.doc(d);
                    }
                    b = b.fallback(fb.finish());
                }
                b.finish().into()
            }
            Node::Newtype { schema, name, doc, target } => {
                let mut b = NewtypeIr::builder(schema, name, self.lex(*target));
                if let Some(d) = doc {
                    b = b.doc(d);
                }
                b.finish().into()
            }
            Node::Service { schema, name, doc, uuid, version, fns, events, fn_fb, ev_fb } => {
                let mut b = ServiceIr::builder(schema, name, ServiceUuid(Uuid::from_u128(*uuid)), *version);
                if let Some(d) = doc {
                    b = b.doc(d);
                }
                for f in fns {
                    let mut fb = FunctionIr::builder(f.id, &f.name);
                    if let Some(d) = &f.doc {
                        fb = fb.doc(d);
                    }
                    if let Some(t) = f.args {
                        fb = fb.args(self.lex(t));
                    }
                    if let Some(t) = f.ok {
                        fb = fb.ok(self.lex(t));
                    }
                    if let Some(t) = f.err {
                        fb = fb.err(self.lex(t));
                    }
                    b = b.function(fb.finish());
                }
                for e in events {
                    let mut eb = EventIr::builder(e.id, &e.name);
                    if let Some(d) = &e.doc {
                        eb = eb.doc(d);
                    }
                    if let Some(t) = e.ty {
                        eb = eb.event_type(self.lex(t));
                    }
                    b = b.event(eb.finish());
                }
                if let Some((n, d)) = fn_fb {
                    let mut fb = FunctionFallbackIr::builder(n);
                    if let Some(d) = d {
                        fb = fb.doc(d);
                    }
                    b = b.function_fallback(fb.finish());
                }
                if let Some((n, d)) = ev_fb {
                    let mut fb = EventFallbackIr::builder(n);
                    if let Some(d) = d {
                        fb = fb.doc(d);
                    }
                    b = b.event_fallback(fb.finish());
                }
                b.finish().into()
            }
        }
    }

    fn reachable(&self, root: usize) -> Vec<usize> {
        let mut seen = vec![false; self.nodes.len()];
        let mut stack = vec![root];
        let mut out = Vec::new();
        while let Some(i) = stack.pop() {
            if seen[i] {
                continue;
            }
            seen[i] = true;
            out.push(i);
            stack.extend(self.children(i));
        }
        out
    }
}

thread_local! {
    static GRAPH: RefCell<Option<Graph>> = const { RefCell::new(None) };
}

struct Slot<const N: usize>;

impl<const N: usize> Introspectable for Slot<N> {
    fn layout() -> LayoutIr {
        GRAPH.with(|g| g.borrow().as_ref().expect("graph").layout(N))
    }
    fn lexical_id() -> LexicalId {
        GRAPH.with(|g| g.borrow().as_ref().expect("graph").lex(N))
    }
    fn add_references(references: &mut References) {
        let (mut ch, perm) = GRAPH.with(|g| {
            let g = g.borrow();
            let g = g.as_ref().expect("graph");
            (g.children(N), g.ref_perm[N])
        });
        let mut r = Rng::new(perm);
        r.shuffle(&mut ch);
        for c in ch {
            references.add_dyn(dyn_of(c));
        }
    }
}

macro_rules! slots {
    ($($n:literal)*) => {
        fn dyn_of(i: usize) -> DynIntrospectable {
            match i {
                $($n => DynIntrospectable::new::<Slot<$n>>(),)*
                _ => panic!("slot index out of range"),
            }
        }
        /// the entry point generated code uses
        fn static_of(i: usize) -> TypeId {
            match i {
                $($n => TypeId::compute::<Slot<$n>>(),)*
                _ => panic!("slot index out of range"),
            }
        }
    };
}
slots!(0 1 2 3 4 5 6 7 8 9 10 11 12 13 14 15 16 17 18 19 20 21 22 23 24 25 26 27 28 29 30 31 32 33 34 35 36 37 38 39 40 41 42 43 44 45 46 47 48 49 50 51 52 53 54 55 56 57 58 59 60 61 62 63);

const MAX_SLOTS: usize = 64;

thread_local! {
    /// set when the two public entry points disagreed on some layout
    static ENTRY_POINTS_DISAGREE: RefCell<Option<String>> = const { RefCell::new(None) };
}

/// The type id of `root` through both public entry points (`TypeId::compute::<T>()`, which
/// generated code calls, and `TypeId::compute_from_dyn`); a disagreement is remembered.
fn type_id(g: &Graph, root: usize) -> TypeId {
    GRAPH.with(|c| *c.borrow_mut() = Some(g.clone()));
    let a = TypeId::compute_from_dyn(dyn_of(root));
    let b = static_of(root);
    if a != b {
        ENTRY_POINTS_DISAGREE.with(|c| *c.borrow_mut() = Some(format!("compute_from_dyn = {}, compute::<T>() = {} for the same layout (root slot {})", a.0, b.0, root)));
    }
    a
}

// ------------------------------------------------------------------------------------------------
// schema -> hand-built IR (the compiled-code half compares against this)
// ------------------------------------------------------------------------------------------------

use crate::schema::gen::{ADef, AItem, ALen, APart, ASchema, AConstValue, AType};

/// Builds, from the abstract schema alone, the layout graph of everything reachable from one
/// definition (following imports), with documentation left out and slots numbered in discovery
/// order. `None` if the closure does not fit into the slot table or a reference does not resolve.
struct Translator<'a> {
    world: &'a [&'a ASchema],
    nodes: Vec<Node>,
    memo: std::collections::HashMap<String, usize>,
    failed: bool,
}

impl<'a> Translator<'a> {
    fn schema(&self, name: &str) -> Option<&'a ASchema> {
        self.world.iter().find(|s| s.name == name).copied()
    }

    fn alloc(&mut self, key: String) -> usize {
        if self.nodes.len() >= MAX_SLOTS {
            self.failed = true;
            return 0;
        }
        self.nodes.push(Node::Leaf(0));
        let i = self.nodes.len() - 1;
        self.memo.insert(key, i);
        i
    }

    fn leaf(&mut self, k: u8) -> usize {
        let key = format!("L{}", k);
        if let Some(i) = self.memo.get(&key) {
            return *i;
        }
        let i = self.alloc(key);
        if !self.failed {
            self.nodes[i] = Node::Leaf(k);
        }
        i
    }

    fn ty(&mut self, schema: &str, t: &AType) -> usize {
        let k = match t {
            AType::Bool => Some(0),
            AType::U8 => Some(1),
            AType::I8 => Some(2),
            AType::U16 => Some(3),
            AType::I16 => Some(4),
            AType::U32 => Some(5),
            AType::I32 => Some(6),
            AType::U64 => Some(7),
            AType::I64 => Some(8),
            AType::F32 => Some(9),
            AType::F64 => Some(10),
            AType::String => Some(11),
            AType::Uuid => Some(12),
            AType::ObjectId => Some(13),
            AType::ServiceId => Some(14),
            AType::Value => Some(15),
            AType::Bytes => Some(16),
            AType::Lifetime => Some(17),
            AType::Unit => Some(18),
            // a byte string in the language (see DESIGN, C16)
            AType::Vec(x) if **x == AType::U8 => Some(16),
            _ => None,
        };
        if let Some(k) = k {
            return self.leaf(k);
        }
        match t {
            AType::Named(n) => return self.def(schema, n),
            AType::Extern(s, n) => return self.def(s, n),
            _ => {}
        }
        let key = format!("T{}:{:?}", schema, t);
        if let Some(i) = self.memo.get(&key) {
            return *i;
        }
        let node = match t {
            AType::Option(x) => Node::Opt(self.ty(schema, x)),
            AType::Box(x) => Node::Boxx(self.ty(schema, x)),
            AType::Vec(x) => Node::VecT(self.ty(schema, x)),
            AType::Set(x) => Node::SetT(self.ty(schema, x)),
            AType::Sender(x) => Node::Sender(self.ty(schema, x)),
            AType::Receiver(x) => Node::Receiver(self.ty(schema, x)),
            AType::Map(a, b) => {
                let a = self.ty(schema, a);
                Node::Map(a, self.ty(schema, b))
            }
            AType::Result(a, b) => {
                let a = self.ty(schema, a);
                Node::Res(a, self.ty(schema, b))
            }
            AType::Array(x, len) => {
                let n = match len {
                    ALen::Lit(n) => Some(*n),
                    ALen::Const(c) => self.schema(schema).and_then(|s| {
                        s.defs.iter().find_map(|d| match d {
                            ADef::Const { name, value: AConstValue::Int(_, v), .. } if name == c => Some(*v as u32),
                            _ => None,
                        })
                    }),
                };
                let Some(n) = n else {
                    self.failed = true;
                    return 0;
                };
                Node::Arr(self.ty(schema, x), n)
            }
            _ => unreachable!(),
        };
        let i = self.alloc(key);
        if !self.failed {
            self.nodes[i] = node;
        }
        i
    }

    fn def(&mut self, schema: &str, name: &str) -> usize {
        let key = format!("D{}::{}", schema, name);
        if let Some(i) = self.memo.get(&key) {
            return *i;
        }
        let Some(s) = self.schema(schema) else {
            self.failed = true;
            return 0;
        };
        let Some(d) = s.defs.iter().find(|d| d.name() == name && !matches!(d, ADef::Const { .. })) else {
            self.failed = true;
            return 0;
        };
        let d = d.clone();
        self.def_node(schema, &d, key)
    }

    fn def_node(&mut self, schema: &str, d: &ADef, key: String) -> usize {
        // reserve the slot first: definitions may refer to themselves
        let i = self.alloc(key);
        if self.failed {
            return 0;
        }
        let node = match d {
            ADef::Struct(st) => Node::Struct {
                schema: schema.to_string(),
                name: st.name.clone(),
                doc: None,
                fields: st.fields.iter().map(|f| Fld { id: f.id, name: f.name.clone(), doc: None, req: f.required, ty: self.ty(schema, &f.ty) }).collect(),
                fallback: st.fallback.as_ref().map(|(_, n)| (n.clone(), None)),
            },
            ADef::Enum(e) => Node::Enum {
                schema: schema.to_string(),
                name: e.name.clone(),
                doc: None,
                variants: e.variants.iter().map(|v| Var { id: v.id, name: v.name.clone(), doc: None, ty: v.ty.as_ref().map(|t| self.ty(schema, t)) }).collect(),
                fallback: e.fallback.as_ref().map(|(_, n)| (n.clone(), None)),
            },
            ADef::Newtype { name, ty, .. } => Node::Newtype { schema: schema.to_string(), name: name.clone(), doc: None, target: self.ty(schema, ty) },
            ADef::Service(sv) => {
                let Ok(uuid) = Uuid::parse_str(&sv.uuid) else {
                    self.failed = true;
                    return 0;
                };
                let mut fns = Vec::new();
                let mut events = Vec::new();
                for it in &sv.items {
                    match it {
                        AItem::Fn { name, id, args, ok, err, .. } => {
                            let f = super::c16::upper_camel(name);
                            let a = args.as_ref().map(|(_, p)| self.part(schema, p, format!("{}{}Args", sv.name, f)));
                            let o = ok.as_ref().map(|(_, p)| self.part(schema, p, format!("{}{}Ok", sv.name, f)));
                            let e = err.as_ref().map(|(_, p)| self.part(schema, p, format!("{}{}Error", sv.name, f)));
                            fns.push(Func { id: *id, name: name.clone(), doc: None, args: a, ok: o, err: e });
                        }
                        AItem::Event { name, id, ty, .. } => {
                            let t = ty.as_ref().map(|p| self.part(schema, p, format!("{}{}Args", sv.name, super::c16::upper_camel(name))));
                            events.push(Evt { id: *id, name: name.clone(), doc: None, ty: t });
                        }
                    }
                }
                Node::Service {
                    schema: schema.to_string(),
                    name: sv.name.clone(),
                    doc: None,
                    uuid: uuid.as_u128(),
                    version: sv.version,
                    fns,
                    events,
                    fn_fb: sv.fn_fallback.as_ref().map(|(_, n)| (n.clone(), None)),
                    ev_fb: sv.ev_fallback.as_ref().map(|(_, n)| (n.clone(), None)),
                }
            }
            ADef::Const { .. } => {
                self.failed = true;
                return 0;
            }
        };
        if !self.failed {
            self.nodes[i] = node;
        }
        i
    }

    fn part(&mut self, schema: &str, p: &APart, inline_name: String) -> usize {
        match p {
            APart::Type(t) => self.ty(schema, t),
            APart::Struct(st) => {
                let mut st = st.clone();
                st.name = inline_name.clone();
                self.def_node(schema, &ADef::Struct(st), format!("D{}::{}", schema, inline_name))
            }
            APart::Enum(e) => {
                let mut e = e.clone();
                e.name = inline_name.clone();
                self.def_node(schema, &ADef::Enum(e), format!("D{}::{}", schema, inline_name))
            }
        }
    }
}

/// Type id of definition `d` of schema `schema` computed from IR built by hand from the abstract
/// schema; `None` if the reachable layouts do not fit into the slot table.
pub(crate) fn type_id_from_schema(world: &[&ASchema], schema: &str, d: &ADef) -> Option<String> {
    let mut t = Translator { world, nodes: Vec::new(), memo: std::collections::HashMap::new(), failed: false };
    let root = t.def_node(schema, d, format!("D{}::{}", schema, d.name()));
    if t.failed {
        return None;
    }
    let n = t.nodes.len();
    let g = Graph { nodes: t.nodes, ref_perm: (0..n as u64).map(|i| i.wrapping_mul(0x9E37_79B9_7F4A_7C15)).collect() };
    let id = guarded(|| type_id(&g, root)).ok()?;
    Some(id.0.to_string())
}

// ------------------------------------------------------------------------------------------------
// generation
// ------------------------------------------------------------------------------------------------

const NAMES: [&str; 10] = ["Alpha", "Beta", "Gamma", "Delta", "Node", "Tree", "Item", "Pair", "Leaf", "Root"];
const FNAMES: [&str; 10] = ["left", "right", "value", "next", "items", "kind", "name", "data", "id", "more"];
const DOCS: [&str; 5] = ["Doc.", "Another doc", "", "multi\nline", "É 🎉"];

fn doc(r: &mut Rng) -> Option<String> {
    if r.bool() {
        Some(r.pick(&DOCS).to_string())
    } else {
        None
    }
}

fn gen_graph(r: &mut Rng) -> (Graph, usize) {
    let ncustom = r.range(2, 7);
    let mut nodes: Vec<Node> = Vec::new();
    // custom nodes first (placeholders), then leaves and generics are appended on demand
    for _ in 0..ncustom {
        nodes.push(Node::Leaf(0));
    }
    fn pick_type(r: &mut Rng, nodes: &mut Vec<Node>, ncustom: usize, depth: usize) -> usize {
        if nodes.len() >= MAX_SLOTS - 4 || depth > 2 || r.chance(2, 5) {
            // leaf or custom
            if r.bool() {
                return r.below(ncustom);
            }
            let k = r.below(LEAVES) as u8;
            if let Some(i) = nodes.iter().position(|n| *n == Node::Leaf(k) && true) {
                if i >= ncustom {
                    return i;
                }
            }
            if nodes.len() >= MAX_SLOTS - 2 {
                // no slot left for another leaf (one is kept for the service fix-up below)
                return nodes.iter().position(|n| matches!(n, Node::Leaf(_))).filter(|i| *i >= ncustom).unwrap_or_else(|| r.below(ncustom));
            }
            nodes.push(Node::Leaf(k));
            return nodes.len() - 1;
        }
        let a = pick_type(r, nodes, ncustom, depth + 1);
        let n = match r.below(9) {
            0 => Node::Opt(a),
            1 => Node::Boxx(a),
            2 => Node::VecT(a),
            3 | 4 if nodes.len() >= MAX_SLOTS - 3 => Node::Opt(a),
            3 => {
                nodes.push(Node::Leaf(1 + r.below(8) as u8));
                Node::SetT(nodes.len() - 1)
            }
            4 => {
                nodes.push(Node::Leaf(11));
                Node::Map(nodes.len() - 1, a)
            }
            5 => {
                let b = pick_type(r, nodes, ncustom, depth + 1);
                Node::Res(a, b)
            }
            6 => Node::Arr(a, 1 + r.below(4) as u32),
            7 => Node::Sender(a),
            _ => Node::Receiver(a),
        };
        if nodes.len() >= MAX_SLOTS - 2 {
            return a;
        }
        nodes.push(n);
        nodes.len() - 1
    }
    let mut used: Vec<String> = Vec::new();
    for i in 0..ncustom {
        let mut name = r.pick(&NAMES).to_string();
        while used.contains(&name) {
            name.push('X');
        }
        used.push(name.clone());
        let schema = if r.chance(1, 4) { "other" } else { "main" }.to_string();
        let node = match r.below(if i == 0 { 8 } else { 7 }) {
            0..=2 => {
                let n = r.below(5);
                let mut ids = Vec::new();
                let fields = (0..n)
                    .map(|j| {
                        let mut id = r.below(40) as u32;
                        while ids.contains(&id) {
                            id += 1;
                        }
                        ids.push(id);
                        Fld { id, name: format!("{}{}", r.pick(&FNAMES), j), doc: doc(r), req: r.chance(1, 3), ty: pick_type(r, &mut nodes, ncustom, 0) }
                    })
                    .collect();
                Node::Struct { schema, name, doc: doc(r), fields, fallback: if r.chance(1, 3) { Some(("unknown".into(), doc(r))) } else { None } }
            }
            3..=4 => {
                let n = 1 + r.below(4);
                let mut ids = Vec::new();
                let variants = (0..n)
                    .map(|j| {
                        let mut id = r.below(40) as u32;
                        while ids.contains(&id) {
                            id += 1;
                        }
                        ids.push(id);
                        Var { id, name: format!("V{}", j), doc: doc(r), ty: if r.bool() { Some(pick_type(r, &mut nodes, ncustom, 0)) } else { None } }
                    })
                    .collect();
                Node::Enum { schema, name, doc: doc(r), variants, fallback: if r.chance(1, 3) { Some(("Unknown".into(), doc(r))) } else { None } }
            }
            5..=6 => Node::Newtype { schema, name, doc: doc(r), target: pick_type(r, &mut nodes, ncustom, 0) },
            _ => {
                let nf = r.below(4);
                let ne = r.below(3);
                let fns = (0..nf)
                    .map(|j| Func {
                        id: j as u32 * 3 + r.below(3) as u32,
                        name: format!("f{}", j),
                        doc: doc(r),
                        args: if r.bool() { Some(pick_type(r, &mut nodes, ncustom, 0)) } else { None },
                        ok: if r.bool() { Some(pick_type(r, &mut nodes, ncustom, 0)) } else { None },
                        err: if r.bool() { Some(pick_type(r, &mut nodes, ncustom, 0)) } else { None },
                    })
                    .collect();
                let events = (0..ne).map(|j| Evt { id: j as u32 * 2 + r.below(2) as u32, name: format!("e{}", j), doc: doc(r), ty: if r.bool() { Some(pick_type(r, &mut nodes, ncustom, 0)) } else { None } }).collect();
                Node::Service {
                    schema,
                    name,
                    doc: doc(r),
                    uuid: r.next_u64() as u128,
                    version: r.below(4) as u32,
                    fns,
                    events,
                    fn_fb: if r.chance(1, 4) { Some(("unknown_function".into(), doc(r))) } else { None },
                    ev_fb: if r.chance(1, 4) { Some(("unknown_event".into(), doc(r))) } else { None },
                }
            }
        };
        nodes[i] = node;
    }
    // services are roots only; references to a service slot from types are re-pointed to a leaf
    let svc: Vec<usize> = (0..ncustom).filter(|&i| matches!(nodes[i], Node::Service { .. })).collect();
    if !svc.is_empty() {
        nodes.push(Node::Leaf(5));
        let leaf = nodes.len() - 1;
        let fix = |t: &mut usize| {
            if svc.contains(t) {
                *t = leaf;
            }
        };
        for n in nodes.iter_mut() {
            match n {
                Node::Opt(c) | Node::Boxx(c) | Node::VecT(c) | Node::SetT(c) | Node::Arr(c, _) | Node::Sender(c) | Node::Receiver(c) => fix(c),
                Node::Map(a, b) | Node::Res(a, b) => {
                    fix(a);
                    fix(b);
                }
                Node::Struct { fields, .. } => fields.iter_mut().for_each(|f| fix(&mut f.ty)),
                Node::Enum { variants, .. } => variants.iter_mut().for_each(|v| {
                    if let Some(t) = &mut v.ty {
                        fix(t)
                    }
                }),
                Node::Newtype { target, .. } => fix(target),
                Node::Service { fns, events, .. } => {
                    for f in fns.iter_mut() {
                        for t in [&mut f.args, &mut f.ok, &mut f.err].into_iter().flatten() {
                            fix(t);
                        }
                    }
                    for e in events.iter_mut() {
                        if let Some(t) = &mut e.ty {
                            fix(t);
                        }
                    }
                }
                Node::Leaf(_) => {}
            }
        }
    }
    let n = nodes.len();
    assert!(n <= MAX_SLOTS, "harness: graph generator exceeded the slot table");
    let g = Graph { nodes, ref_perm: (0..n).map(|_| r.next_u64()).collect() };
    (g, 0)
}

// ------------------------------------------------------------------------------------------------
// edits
// ------------------------------------------------------------------------------------------------

/// Changes that must not change the id.
fn neutral(g: &Graph, root: usize, r: &mut Rng) -> (Graph, usize, &'static str) {
    let mut h = g.clone();
    match r.below(4) {
        0 => {
            for n in h.nodes.iter_mut() {
                let nd = |r: &mut Rng| if r.bool() { Some(format!("edited {}", r.next_u32())) } else { None };
                match n {
                    Node::Struct { doc, fields, fallback, .. } => {
                        *doc = nd(r);
                        fields.iter_mut().for_each(|f| f.doc = nd(r));
                        if let Some((_, d)) = fallback {
                            *d = nd(r);
                        }
                    }
                    Node::Enum { doc, variants, fallback, .. } => {
                        *doc = nd(r);
                        variants.iter_mut().for_each(|v| v.doc = nd(r));
                        if let Some((_, d)) = fallback {
                            *d = nd(r);
                        }
                    }
                    Node::Newtype { doc, .. } => *doc = nd(r),
                    Node::Service { doc, fns, events, fn_fb, ev_fb, .. } => {
                        *doc = nd(r);
                        fns.iter_mut().for_each(|f| f.doc = nd(r));
                        events.iter_mut().for_each(|e| e.doc = nd(r));
                        if let Some((_, d)) = fn_fb {
                            *d = nd(r);
                        }
                        if let Some((_, d)) = ev_fb {
                            *d = nd(r);
                        }
                    }
                    _ => {}
                }
            }
            (h, root, "documentation edited")
        }
        1 => {
            for p in h.ref_perm.iter_mut() {
                *p = r.next_u64();
            }
            (h, root, "reference visiting order permuted")
        }
        2 => {
            for n in h.nodes.iter_mut() {
                match n {
                    Node::Struct { fields, .. } => r.shuffle(fields),
                    Node::Enum { variants, .. } => r.shuffle(variants),
                    Node::Service { fns, events, .. } => {
                        r.shuffle(fns);
                        r.shuffle(events);
                    }
                    _ => {}
                }
            }
            (h, root, "insertion order of fields/variants/items permuted")
        }
        _ => {
            // declaration order: renumber the slots
            let n = g.nodes.len();
            let mut perm: Vec<usize> = (0..n).collect();
            r.shuffle(&mut perm);
            // perm[old] = new
            let mut nodes = vec![Node::Leaf(0); n];
            let mut ref_perm = vec![0u64; n];
            let m = |t: usize| perm[t];
            for (old, node) in g.nodes.iter().enumerate() {
                let mut nn = node.clone();
                match &mut nn {
                    Node::Opt(c) | Node::Boxx(c) | Node::VecT(c) | Node::SetT(c) | Node::Arr(c, _) | Node::Sender(c) | Node::Receiver(c) => *c = m(*c),
                    Node::Map(a, b) | Node::Res(a, b) => {
                        *a = m(*a);
                        *b = m(*b);
                    }
                    Node::Struct { fields, .. } => fields.iter_mut().for_each(|f| f.ty = m(f.ty)),
                    Node::Enum { variants, .. } => variants.iter_mut().for_each(|v| v.ty = v.ty.map(m)),
                    Node::Newtype { target, .. } => *target = m(*target),
                    Node::Service { fns, events, .. } => {
                        for f in fns.iter_mut() {
                            f.args = f.args.map(m);
                            f.ok = f.ok.map(m);
                            f.err = f.err.map(m);
                        }
                        for e in events.iter_mut() {
                            e.ty = e.ty.map(m);
                        }
                    }
                    Node::Leaf(_) => {}
                }
                nodes[perm[old]] = nn;
                ref_perm[perm[old]] = g.ref_perm[old];
            }
            (Graph { nodes, ref_perm }, perm[root], "declaration order (slot numbering) permuted")
        }
    }
}

/// One semantic edit of a node reachable from the root; `None` if the drawn edit does not apply.
fn semantic(g: &Graph, root: usize, r: &mut Rng) -> Option<(Graph, String)> {
    let reach = g.reachable(root);
    let target = *r.pick(&reach);
    let mut h = g.clone();
    // a type with a lexical id different from `cur`
    let other_type = |g: &Graph, cur: usize, r: &mut Rng| -> Option<usize> {
        let cands: Vec<usize> = (0..g.nodes.len()).filter(|&i| !matches!(g.nodes[i], Node::Service { .. }) && g.lex(i) != g.lex(cur)).collect();
        if cands.is_empty() {
            None
        } else {
            Some(*r.pick(&cands))
        }
    };
    let what: String;
    match &mut h.nodes[target] {
        Node::Leaf(k) => {
            let old = *k;
            *k = (*k + 1 + r.below(LEAVES - 1) as u8) % LEAVES as u8;
            what = format!("built-in type {} -> {}", old, k);
        }
        Node::Arr(_, n) => {
            *n += 1;
            what = "array length".into();
        }
        Node::Sender(c) if r.chance(1, 2) => {
            // same element, other generic: sender<T> and receiver<T> are different layouts
            let c = *c;
            h.nodes[target] = Node::Receiver(c);
            what = "generic kind sender -> receiver".into();
        }
        Node::Receiver(c) if r.chance(1, 2) => {
            let c = *c;
            h.nodes[target] = Node::Sender(c);
            what = "generic kind receiver -> sender".into();
        }
        Node::Opt(c) if r.chance(1, 3) => {
            let c = *c;
            h.nodes[target] = Node::VecT(c);
            what = "generic kind option -> vec".into();
        }
        Node::VecT(c) if r.chance(1, 3) => {
            let c = *c;
            h.nodes[target] = Node::Opt(c);
            what = "generic kind vec -> option".into();
        }
        Node::Opt(c) | Node::Boxx(c) | Node::VecT(c) | Node::Sender(c) | Node::Receiver(c) => {
            // only named types and leaves, so that no cycle made of generics alone can arise
            let t = other_type(g, *c, r).filter(|&t| matches!(g.nodes[t], Node::Leaf(_) | Node::Struct { .. } | Node::Enum { .. } | Node::Newtype { .. }))?;
            *c = t;
            what = "element type of a generic".into();
        }
        Node::SetT(_) | Node::Map(_, _) | Node::Res(_, _) => return None,
        Node::Struct { schema, name, fields, fallback, .. } => match r.below(8) {
            0 => {
                name.push('Z');
                what = "struct name".into();
            }
            1 => {
                schema.push('z');
                what = "schema name of a struct".into();
            }
            2 => {
                if fallback.is_some() {
                    *fallback = None;
                } else {
                    *fallback = Some(("unknown".into(), None));
                }
                what = "struct fallback toggled".into();
            }
            3 => {
                let id = fields.iter().map(|f| f.id).max().unwrap_or(0) + 1;
                fields.push(Fld { id, name: "added".into(), doc: None, req: false, ty: target });
                what = "field added".into();
            }
            k => {
                if fields.is_empty() {
                    return None;
                }
                let i = r.below(fields.len());
                match k {
                    4 => {
                        fields[i].id = fields.iter().map(|f| f.id).max().unwrap() + 1;
                        what = "field id".into();
                    }
                    5 => {
                        fields[i].name.push('_');
                        what = "field name".into();
                    }
                    6 => {
                        fields[i].req = !fields[i].req;
                        what = "required flag".into();
                    }
                    _ => {
                        let t = other_type(g, fields[i].ty, r)?;
                        fields[i].ty = t;
                        what = "field type".into();
                    }
                }
            }
        },
        Node::Enum { schema, name, variants, fallback, .. } => match r.below(7) {
            0 => {
                name.push('Z');
                what = "enum name".into();
            }
            1 => {
                schema.push('z');
                what = "schema name of an enum".into();
            }
            2 => {
                if fallback.is_some() {
                    *fallback = None;
                } else {
                    *fallback = Some(("Unknown".into(), None));
                }
                what = "enum fallback toggled".into();
            }
            k => {
                let i = r.below(variants.len());
                match k {
                    3 => {
                        variants[i].id = variants.iter().map(|v| v.id).max().unwrap() + 1;
                        what = "variant id".into();
                    }
                    4 => {
                        variants[i].name.push('_');
                        what = "variant name".into();
                    }
                    5 => {
                        match variants[i].ty {
                            Some(_) => variants[i].ty = None,
                            None => variants[i].ty = Some(target),
                        }
                        what = "variant payload toggled".into();
                    }
                    _ => {
                        let cur = variants[i].ty?;
                        variants[i].ty = Some(other_type(g, cur, r)?);
                        what = "variant type".into();
                    }
                }
            }
        },
        Node::Newtype { schema, name, target: t, .. } => match r.below(3) {
            0 => {
                name.push('Z');
                what = "newtype name".into();
            }
            1 => {
                schema.push('z');
                what = "schema name of a newtype".into();
            }
            _ => {
                *t = other_type(g, *t, r)?;
                what = "newtype target".into();
            }
        },
        Node::Service { schema, name, uuid, version, fns, events, fn_fb, ev_fb, .. } => match r.below(10) {
            0 => {
                name.push('Z');
                what = "service name".into();
            }
            1 => {
                schema.push('z');
                what = "schema name of a service".into();
            }
            2 => {
                *uuid ^= 1;
                what = "service uuid".into();
            }
            3 => {
                *version += 1;
                what = "service version".into();
            }
            4 => {
                *fn_fb = if fn_fb.is_some() { None } else { Some(("unknown_function".into(), None)) };
                what = "function fallback toggled".into();
            }
            5 => {
                *ev_fb = if ev_fb.is_some() { None } else { Some(("unknown_event".into(), None)) };
                what = "event fallback toggled".into();
            }
            6 | 7 => {
                if fns.is_empty() {
                    return None;
                }
                let i = r.below(fns.len());
                match r.below(4) {
                    0 => {
                        fns[i].id = fns.iter().map(|f| f.id).max().unwrap() + 1;
                        what = "function id".into();
                    }
                    1 => {
                        fns[i].name.push('_');
                        what = "function name".into();
                    }
                    2 => {
                        fns[i].args = match fns[i].args {
                            Some(_) => None,
                            None => Some(g.nodes.iter().position(|n| matches!(n, Node::Leaf(_)))?),
                        };
                        what = "function args toggled".into();
                    }
                    _ => {
                        let cur = fns[i].ok?;
                        fns[i].ok = Some(other_type(g, cur, r)?);
                        what = "function ok type".into();
                    }
                }
            }
            _ => {
                if events.is_empty() {
                    return None;
                }
                let i = r.below(events.len());
                match r.below(3) {
                    0 => {
                        events[i].id = events.iter().map(|e| e.id).max().unwrap() + 1;
                        what = "event id".into();
                    }
                    1 => {
                        events[i].name.push('_');
                        what = "event name".into();
                    }
                    _ => {
                        events[i].ty = match events[i].ty {
                            Some(_) => None,
                            None => Some(g.nodes.iter().position(|n| matches!(n, Node::Leaf(_)))?),
                        };
                        what = "event type toggled".into();
                    }
                }
            }
        },
    }
    // two custom types with the same lexical id are not a legal schema
    let mut lex: Vec<LexicalId> = h.reachable(root).iter().filter(|&&i| matches!(h.nodes[i], Node::Struct { .. } | Node::Enum { .. } | Node::Newtype { .. } | Node::Service { .. })).map(|&i| h.lex(i)).collect();
    lex.sort();
    let n0 = lex.len();
    lex.dedup();
    if lex.len() != n0 {
        return None;
    }
    Some((h, what))
}

impl Check for C20 {
    fn id(&self) -> &'static str {
        "C20"
    }
    fn level(&self) -> &'static str {
        "exploration"
    }
    fn rule(&self) -> &'static str {
        "one case = one random layout graph (2-7 structs/enums/newtypes/services over two schema names, recursive and mutually recursive through option/box/vec/map/set/result/array/sender/receiver nodes, all 19 leaf built-ins) fed to the real TypeId::compute through const-generic Introspectable slots; per case 6 neutral transformations (documentation edits, reference visiting order, insertion order of fields/variants/items, slot renumbering) must keep the id and up to 12 single semantic edits of a reachable node (names, schema, ids, required flag, referenced types, fallbacks, uuid, version, payload presence, array length, transitive edits) must change it; the Introspection record must round-trip through serialization and every reference must resolve to the id computed for that node. distinct = hash of the graph"
    }
    fn assumptions(&self) -> Vec<String> {
        vec![
            "the compiled-code half (generator output vs generate! macro vs hand-written derives with implicit and explicit ids) runs through C16's corpus crate in `once`; the same schemas are translated into hand-built IR (documentation left out, slots in discovery order) and the ids computed from that must equal the compiled ones, for structs, enums, newtypes, inline service types and services".into(),
            "'equal iff' is sampled: the only-if direction over single edits, the if direction over the four neutral transformations".into(),
        ]
    }
    fn total_cases(&self, tier: Tier) -> u64 {
        match tier {
            Tier::Quick => 20000,
            Tier::Thorough => 2_000_000,
        }
    }
    fn run_case(&self, ctx: &Ctx, idx: u64, out: &mut Outcome) {
        let mut r = Rng::derive(ctx.seed, 0xC20, idx);
        let (g, root) = gen_graph(&mut r);
        out.eval();
        out.distinct_case(fnv(format!("{:?}", g.nodes).as_bytes()));
        let replay = |extra: serde_json::Value| json!({"case": idx, "seed": ctx.seed, "graph": format!("{:?}", g.nodes).chars().take(3000).collect::<String>(), "extra": extra});
        let res = guarded(|| {
            let mut problems: Vec<(String, String)> = Vec::new();
            let mut obs: Vec<(String, u64)> = Vec::new();
            ENTRY_POINTS_DISAGREE.with(|c| *c.borrow_mut() = None);
            let id0 = type_id(&g, root);
            // determinism
            if type_id(&g, root) != id0 {
                problems.push(("not-deterministic".into(), "two computations over the same layout differ".into()));
            }
            let cyclic = g.reachable(root).iter().any(|&i| g.children(i).iter().any(|&c| g.reachable(c).contains(&i)));
            if cyclic {
                obs.push(("recursive_layouts".into(), 1));
            }
            for _ in 0..6 {
                let (h, hroot, what) = neutral(&g, root, &mut r);
                obs.push((format!("neutral[{}]", what), 1));
                if type_id(&h, hroot) != id0 {
                    problems.push((format!("id-changed:{}", what), format!("{}: the type id changed", what)));
                }
            }
            // a built-in generic is a type of its own (it has an id and a record): the same element
            // under another generic must not share that id - checked with the generic itself as
            // the root, where no enclosing type's lexical reference can hide a collision
            for i in g.reachable(root) {
                let swapped = match &g.nodes[i] {
                    Node::Sender(c) => Some((Node::Receiver(*c), "sender<T> vs receiver<T>")),
                    Node::Receiver(c) => Some((Node::Sender(*c), "receiver<T> vs sender<T>")),
                    Node::Opt(c) => Some((Node::VecT(*c), "option<T> vs vec<T>")),
                    Node::VecT(c) => Some((Node::Opt(*c), "vec<T> vs option<T>")),
                    _ => None,
                };
                let Some((n2, what)) = swapped else { continue };
                let mut h = g.clone();
                h.nodes[i] = n2;
                obs.push((format!("generic-as-root[{}]", what), 1));
                if type_id(&g, i) == type_id(&h, i) {
                    problems.push((format!("id-unchanged:generic-as-root:{}", what.split(' ').next().unwrap_or("")), format!("{}: the two built-in generics over the same element type have the same type id", what)));
                }
            }
            let mut done = 0;
            for _ in 0..40 {
                if done >= 12 {
                    break;
                }
                let Some((h, what)) = semantic(&g, root, &mut r) else { continue };
                done += 1;
                obs.push((format!("edit[{}]", what.split(" -> ").next().unwrap_or(&what).split(' ').take(3).collect::<Vec<_>>().join(" ")), 1));
                if type_id(&h, root) == id0 {
                    problems.push((format!("id-unchanged:{}", what.split(' ').take(3).collect::<Vec<_>>().join("-")), format!("semantic edit `{}` of a node reachable from the root did not change the type id", what)));
                }
            }
            // introspection record
            GRAPH.with(|c| *c.borrow_mut() = Some(g.clone()));
            let ir = IntrospectionIr::from_dyn(dyn_of(root));
            if ir.type_id() != id0 {
                problems.push(("record-type-id".into(), "Introspection carries a different type id than TypeId::compute".into()));
            }
            for c in g.children(root) {
                let want = TypeId::compute_from_dyn(dyn_of(c));
                if ir.resolve(g.lex(c)) != Some(want) {
                    problems.push(("reference-unresolved".into(), format!("reference to node {} does not resolve to its id", c)));
                }
            }
            if let Some(d) = ENTRY_POINTS_DISAGREE.with(|c| c.borrow_mut().take()) {
                problems.push(("entry-points-disagree".into(), format!("the id depends on the entry point or on what was computed before: {}", d)));
            }
            let intro = Introspection::from_ir(ir);
            match SerializedValue::serialize(&intro) {
                Ok(sv) => match sv.deserialize::<Introspection>() {
                    Ok(back) => {
                        if back != intro {
                            problems.push(("record-roundtrip".into(), "deserialized introspection differs".into()));
                        }
                        obs.push(("records_roundtripped".into(), 1));
                    }
                    Err(e) => problems.push(("record-deserialize".into(), format!("{:?}", e))),
                },
                Err(e) => problems.push(("record-serialize".into(), format!("{:?}", e))),
            }
            (problems, obs)
        });
        match res {
            Ok((problems, obs)) => {
                for (k, v) in obs {
                    out.count(&k, v);
                }
                for (sig, detail) in problems {
                    out.violation(sig, detail, replay(json!(null)));
                }
            }
            Err(p) => out.violation(format!("panic:{}", panic_site(&p)), format!("panicked: {}", p), replay(json!(null))),
        }
        if idx % 700 == 0 {
            out.sample(json!({"case": idx, "nodes": g.nodes.len(), "graph": format!("{:?}", g.nodes).chars().take(700).collect::<String>()}));
        }
    }
    /// The compiled-code half: type ids computed by code from the code generator, from the
    /// generate! macro and from hand-written derives (implicit vs explicit ids) must agree.
    /// Uses C16's corpus crate; only the type-id verdicts are taken from it.
    fn once(&self, ctx: &Ctx, out: &mut Outcome) {
        let mut tmp = Outcome::default();
        super::c16::C16.batch(ctx, &mut tmp, 1000, 8);
        out.count("compiled_type_ids_compared", tmp.counters.get("type_ids_compared").copied().unwrap_or(0));
        out.count("handwritten_derive_observations", tmp.counters.get("handwritten_derive_observations").copied().unwrap_or(0));
        out.count("compiled_type_ids_vs_hand_built_ir", tmp.counters.get("type_ids_vs_hand_built_ir").copied().unwrap_or(0));
        out.count("compiled_service_ids_vs_hand_built_ir", tmp.counters.get("service_ids_vs_hand_built_ir").copied().unwrap_or(0));
        for v in tmp.violations {
            if v.signature.starts_with("derive-implicit-ids") || v.signature.starts_with("type-id-") {
                out.violation(v.signature, v.detail, v.replay);
            } else {
                out.count("corpus_findings_owned_by_C16", 1);
            }
        }
        for i in tmp.inconclusive {
            out.inconclusive(format!("compiled-code half: {}", i));
        }
    }
    fn gates(&self, _tier: Tier, merged: &Outcome) -> Vec<String> {
        let mut g = Vec::new();
        for k in ["recursive_layouts", "records_roundtripped", "compiled_type_ids_compared", "handwritten_derive_observations", "compiled_type_ids_vs_hand_built_ir"] {
            if merged.counters.get(k).copied().unwrap_or(0) == 0 {
                g.push(format!("{} never happened", k));
            }
        }
        let edits = merged.counters.keys().filter(|k| k.starts_with("edit[")).count();
        if edits < 15 {
            g.push(format!("only {} kinds of semantic edits were exercised", edits));
        }
        g
    }
}
