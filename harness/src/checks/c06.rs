//! C06: real clients and the real broker agree under every schedule. Random multi-client
//! programs over the public client API run on `dx` in random mode; oracle = no panic, every
//! `Client::run`/`Connection::run` returns Ok, every application task finishes (programs are
//! deadlock-free by construction), results carry the caller's own nonces and tags, and an idle
//! shutdown completes after all clients have shut down.

use super::Check;
use crate::bus::clientrig::*;
use crate::bus::dx::{cancel_after, RunEnd, Signal};
use crate::prng::{fnv, Rng};
use crate::report::{Ctx, Outcome, Tier};
use aldrin::low_level::Proxy;
use aldrin::Handle;
use aldrin_core::{BusListenerFilter, BusListenerScope, ObjectUuid, ServiceId, ServiceUuid};
use serde_json::json;
use std::cell::Cell;
use std::rc::Rc;
use uuid::Uuid;

pub struct C06;

#[derive(Clone, Debug)]
pub enum Step {
    SyncClient,
    SyncBroker,
    Version,
    Object { nsvc: u32, explicit: bool, cancel: Option<u32> },
    Call { server: usize, func: u32, cancel: Option<u32> },
    Events { server: usize, event: u32, count: u32, all: bool, unsubscribe: bool },
    DropProxy { server: usize },
    Channel { peer: usize, sender_here: bool, capacity: u32, items: u32, consumer_stops_after: Option<u32>, producer_drops_after: Option<u32> },
    Listener { nfilters: u32, scope: u8 },
    Lifetime,
    Discover { server: usize, wait: bool },
    DoubleClaim { peer1: usize, peer2: usize },
    DeadProxy,
    /// several proxies of one service on one client: `subs[i]` = (subscribed to `event`, via
    /// all-events, also subscribed to the neighbouring event id); one of them is dropped or
    /// unsubscribed half-way, the siblings must keep (exactly) their own subscriptions
    ProxyFamily { server: usize, event: u32, subs: Vec<(bool, bool, bool)>, leave: usize, by_drop: bool },
    /// introspection: register a type on this client, submit, then query it (and a type nobody
    /// registered) through another client's handle
    Introspect { ty: u32, via: usize },
}

#[derive(Clone, Debug)]
pub struct Program {
    pub clients: Vec<((Option<usize>, Option<usize>), Option<u32>)>,
    pub servers: Vec<ServerCfg>,
    pub apps: Vec<(usize, Vec<Step>)>,
}

const CAPS: [Option<usize>; 6] = [None, None, Some(1), Some(2), Some(4), Some(16)];

pub fn gen_program(r: &mut Rng, with_double_claim: bool) -> Program {
    gen_program_kind(r, with_double_claim, false)
}

/// `channels_only`: programs made of channel steps (C05, client level).
pub fn gen_program_kind(r: &mut Rng, with_double_claim: bool, channels_only: bool) -> Program {
    gen_program_focus(r, with_double_claim, if channels_only { 1 } else { 0 })
}

/// focus: 0 = everything, 1 = channel steps only, 2 = event/call steps only (C04, client level).
pub fn gen_program_focus(r: &mut Rng, with_double_claim: bool, focus: u8) -> Program {
    let channels_only = focus == 1;
    let nclients = r.range(2, 4);
    let mut clients = Vec::new();
    for _ in 0..nclients {
        let caps = (*r.pick(&CAPS), *r.pick(&CAPS));
        let minor = if r.chance(2, 3) { None } else { Some(14 + r.below(7) as u32) };
        clients.push((caps, minor));
    }
    let nservers = r.range(1, 2);
    let servers: Vec<ServerCfg> = (0..nservers)
        .map(|i| ServerCfg {
            client: r.below(nclients),
            obj: ObjectUuid(Uuid::from_u128(0xC06_0000 + i as u128)),
            svc: ServiceUuid(Uuid::from_u128(0xC06_1000 + i as u128)),
            version: r.below(4) as u32,
        })
        .collect();
    let mut apps = Vec::new();
    for c in 0..nclients {
        for _ in 0..r.range(1, 2) {
            let n = r.range(3, 8);
            let mut steps = Vec::new();
            for _ in 0..n {
                let cancel = if r.chance(1, 5) { Some(1 + r.below(6) as u32) } else { None };
                let server = r.below(nservers);
                let pick = match focus {
                    1 => {
                        // channel steps, one in five a refused second claim of a channel end
                        let k = r.below(5);
                        if k == 4 { 99 } else { 14 + k.min(2) }
                    }
                    2 => *r.pick(&[5usize, 10, 10, 11, 11, 12, 12, 13, 1, 23, 23, 24]),
                    _ => {
                        let k = r.below(if with_double_claim { 27 } else { 26 });
                        if k == 26 { 99 } else { k }
                    }
                };
                let s = match pick {
                    0 => Step::SyncClient,
                    1 => Step::SyncBroker,
                    2 => Step::Version,
                    3 | 4 => Step::Object { nsvc: r.below(3) as u32, explicit: r.bool(), cancel },
                    5..=9 => {
                        let func = *r.pick(&[FN_ECHO, FN_ECHO, FN_ERR, FN_INVALID_FUNCTION, FN_INVALID_ARGS, FN_ABORT, FN_DELAYED, FN_DELAYED, FN_WAIT_ABORT]);
                        // a call the callee never answers is always given up by the caller
                        let cancel = if func == FN_WAIT_ABORT { Some(cancel.unwrap_or(2 + r.below(5) as u32)) } else { cancel };
                        Step::Call { server, func, cancel }
                    }
                    10..=12 => Step::Events { server, event: r.below(3) as u32, count: 1 + r.below(4) as u32, all: r.chance(1, 3), unsubscribe: r.bool() },
                    13 => Step::DropProxy { server },
                    14..=16 => Step::Channel {
                        peer: r.below(nclients),
                        sender_here: r.bool(),
                        capacity: *r.pick(&[1u32, 2, 4, 5, 16]),
                        items: if channels_only { r.below(40) as u32 } else { r.below(14) as u32 },
                        consumer_stops_after: if r.chance(1, 4) { Some(r.below(5) as u32) } else { None },
                        producer_drops_after: if r.chance(1, 4) { Some(r.below(5) as u32) } else { None },
                    },
                    17 | 18 => Step::Listener { nfilters: r.below(4) as u32, scope: r.below(3) as u8 },
                    19 => Step::Lifetime,
                    20 | 21 => Step::Discover { server, wait: r.bool() },
                    22 => Step::DeadProxy,
                    23 | 24 => {
                        let n = r.range(2, 4);
                        let subs = (0..n).map(|_| (r.chance(2, 3), r.chance(1, 4), r.chance(1, 3))).collect();
                        Step::ProxyFamily { server, event: r.below(3) as u32, subs, leave: r.below(n), by_drop: r.chance(2, 3) }
                    }
                    25 => Step::Introspect { ty: r.below(3) as u32, via: r.below(nclients) },
                    _ => Step::DoubleClaim { peer1: r.below(nclients), peer2: r.below(nclients) },
                };
                steps.push(s);
            }
            apps.push((c, steps));
        }
    }
    Program { clients, servers, apps }
}

pub struct Env {
    sh: Sh,
    handles: std::cell::RefCell<Vec<Option<Handle>>>,
    versions: Vec<u32>,
    servers: Vec<(ServerCfg, Signal<Option<ServiceId>>)>,
    nonce: Rc<Cell<u64>>,
    /// clients whose applications let go of everything at the next step boundary
    abandon: std::cell::RefCell<Vec<bool>>,
    /// run post-mortem operations at the end of every application task
    post_mortem: bool,
    /// a fault or termination is injected into this run (results that depend on who is alive are
    /// not judged)
    faulty: bool,
}

struct IntroT<const K: u32>;

impl<const K: u32> aldrin_core::introspection::Introspectable for IntroT<K> {
    fn layout() -> aldrin_core::introspection::ir::LayoutIr {
        use aldrin_core::introspection::ir;
        ir::StructIr::builder("c06", format!("T{}", K))
            .field(ir::FieldIr::builder(K, "f", true, <u32 as aldrin_core::introspection::Introspectable>::lexical_id()).finish())
            .finish()
            .into()
    }
    fn lexical_id() -> aldrin_core::introspection::LexicalId {
        aldrin_core::introspection::LexicalId::custom("c06", format!("T{}", K))
    }
    fn add_references(references: &mut aldrin_core::introspection::References) {
        references.add::<u32>();
    }
}

fn intro_type(k: u32) -> aldrin_core::introspection::DynIntrospectable {
    use aldrin_core::introspection::DynIntrospectable;
    match k {
        0 => DynIntrospectable::new::<IntroT<0>>(),
        1 => DynIntrospectable::new::<IntroT<1>>(),
        _ => DynIntrospectable::new::<IntroT<2>>(),
    }
}

impl Env {
    fn h(&self, c: usize) -> Handle {
        // a handle that was given up is replaced by the handle of... nothing: callers check
        // `abandoned` first; this is only reached while the handle exists
        self.handles.borrow()[c].clone().expect("handle present")
    }
    fn abandoned(&self, c: usize) -> bool {
        self.abandon.borrow()[c] || self.handles.borrow()[c].is_none()
    }
    fn nonce(&self) -> u64 {
        let n = self.nonce.get() + 1;
        self.nonce.set(n);
        n
    }
}

fn unexpected(sh: &Sh, what: &str, e: &aldrin::Error) {
    sh.fail(&format!("unexpected-error:{}", what), format!("{} returned {:?}", what, e));
}

async fn get_proxy(env: &Env, me: usize, server: usize, cache: &mut Vec<Option<Proxy>>) -> bool {
    if cache[server].is_some() {
        return true;
    }
    let Some(id) = env.servers[server].1.wait().await else { return false };
    match proxy(&env.sh, &env.h(me), id).await {
        Ok(p) => {
            cache[server] = Some(p);
            true
        }
        Err(e) => {
            unexpected(&env.sh, "create_proxy", &e);
            false
        }
    }
}

async fn app(env: Rc<Env>, me: usize, name: String, steps: Vec<Step>) {
    let sh = env.sh.clone();
    let h = env.h(me);
    let mut proxies: Vec<Option<Proxy>> = env.servers.iter().map(|_| None).collect();
    for (si, step) in steps.into_iter().enumerate() {
        if env.abandoned(me) {
            sh.op("abandon");
            drop(proxies);
            drop(h);
            return;
        }
        sh.log(format!("{} step {} {:?}", name, si, step));
        match step {
            Step::SyncClient => {
                sh.op("sync_client");
                if let Err(e) = h.sync_client().await {
                    unexpected(&sh, "sync_client", &e);
                }
            }
            Step::SyncBroker => {
                sh.op("sync_broker");
                if let Err(e) = h.sync_broker().await {
                    unexpected(&sh, "sync_broker", &e);
                }
            }
            Step::Version => {
                sh.op("version");
                match h.version().await {
                    Ok(v) => {
                        if v.minor() != env.versions[me] {
                            sh.fail("version", format!("client reports 1.{}, negotiated 1.{}", v.minor(), env.versions[me]));
                        }
                    }
                    Err(e) => unexpected(&sh, "version", &e),
                }
            }
            Step::Object { nsvc, explicit, cancel } => {
                let uuid = ObjectUuid(Uuid::from_u128(0xC06_A000_0000 + env.nonce() as u128));
                sh.op("create_object");
                let obj = match cancel {
                    Some(n) => {
                        sh.op("cancelled:create_object");
                        match cancel_after(h.create_object(uuid), n).await {
                            Some(r) => r,
                            None => continue,
                        }
                    }
                    None => h.create_object(uuid).await,
                };
                let obj = match obj {
                    Ok(o) => o,
                    Err(e) => {
                        unexpected(&sh, "create_object", &e);
                        continue;
                    }
                };
                let mut svcs = Vec::new();
                for k in 0..nsvc {
                    sh.op("create_service");
                    match obj.create_service(ServiceUuid(Uuid::from_u128(0xC06_B000 + k as u128)), aldrin::low_level::ServiceInfo::new(k)).await {
                        Ok(s) => svcs.push(s),
                        Err(e) => unexpected(&sh, "create_service", &e),
                    }
                }
                // duplicate service is refused
                if nsvc > 0 {
                    match obj.create_service(ServiceUuid(Uuid::from_u128(0xC06_B000)), aldrin::low_level::ServiceInfo::new(9)).await {
                        Err(aldrin::Error::DuplicateService) => {}
                        other => sh.fail("duplicate-service", format!("creating a service twice returned {:?}", other.map(|s| s.id()))),
                    }
                }
                if explicit {
                    for s in &svcs {
                        sh.op("service.destroy");
                        if let Err(e) = s.destroy().await {
                            unexpected(&sh, "service.destroy", &e);
                        }
                    }
                    sh.op("object.destroy");
                    if let Err(e) = obj.destroy().await {
                        unexpected(&sh, "object.destroy", &e);
                    }
                }
                sh.op("drop:object");
                drop(svcs);
                drop(obj);
            }
            Step::Call { server, func, cancel } => {
                if !get_proxy(&env, me, server, &mut proxies).await {
                    continue;
                }
                let p = proxies[server].as_ref().unwrap();
                let nonce = env.nonce();
                sh.op(&format!("call:fn{}", func));
                let version = if nonce % 3 == 0 { Some((nonce % 7) as u32) } else { None };
                let pending = p.call(func, nonce, version);
                let reply = match cancel {
                    Some(n) => {
                        sh.op("cancelled:call");
                        match cancel_after(pending, n).await {
                            Some(r) => r,
                            None => continue,
                        }
                    }
                    None => pending.await,
                };
                let ok = match (func, &reply) {
                    // answered before it was given up: only when the service went away
                    (FN_WAIT_ABORT, Err(aldrin::Error::InvalidService | aldrin::Error::CallAborted)) => true,
                    (FN_ECHO | FN_DELAYED, Ok(r)) => matches!(r.deserialize::<u64, u64>(), Ok(Ok(n)) if n == nonce),
                    (FN_ERR, Ok(r)) => matches!(r.deserialize::<u64, u64>(), Ok(Err(n)) if n == nonce),
                    (FN_INVALID_FUNCTION, Err(aldrin::Error::InvalidFunction(_))) => true,
                    (FN_INVALID_ARGS, Err(aldrin::Error::InvalidArguments(_))) => true,
                    (FN_ABORT, Err(aldrin::Error::CallAborted)) => true,
                    _ => false,
                };
                if !ok {
                    sh.fail(
                        &format!("call-result:fn{}", func),
                        format!("call of function {} with nonce {} returned {:?}", func, nonce, reply.as_ref().map(|r| r.deserialize::<u64, u64>())),
                    );
                }
            }
            Step::Events { server, event, count, all, unsubscribe } => {
                if !get_proxy(&env, me, server, &mut proxies).await {
                    continue;
                }
                let p = proxies[server].as_mut().unwrap();
                let use_all = all && p.can_subscribe_all();
                let mut use_all = use_all;
                if use_all {
                    sh.op("subscribe_all");
                    match p.subscribe_all().await {
                        Ok(()) => {}
                        // documented: a client below 1.18 cannot subscribe to all events
                        Err(aldrin::Error::NotSupported) if env.versions[me] < 18 => use_all = false,
                        Err(e) => {
                            unexpected(&sh, "subscribe_all", &e);
                            continue;
                        }
                    }
                }
                if !use_all {
                    sh.op("subscribe");
                    if let Err(e) = p.subscribe(event).await {
                        unexpected(&sh, "subscribe", &e);
                        continue;
                    }
                }
                let tag = env.nonce();
                sh.op("call:fn5");
                match p.call(FN_EMIT, (event, count, tag), None).await {
                    Ok(r) => {
                        if !matches!(r.deserialize::<u64, u64>(), Ok(Ok(t)) if t == tag) {
                            sh.fail("call-result:fn5", format!("emit request with tag {} answered with something else", tag));
                        }
                    }
                    Err(e) => {
                        unexpected(&sh, "call:fn5", &e);
                        continue;
                    }
                }
                // the events were emitted before the reply: they must all arrive, in order
                let mut next = 0u32;
                while next < count {
                    sh.op("next_event");
                    let Some(ev) = p.next_event().await else {
                        sh.fail("events-ended", format!("event stream ended after {} of {} events of tag {}", next, count, tag));
                        break;
                    };
                    match ev.deserialize::<(u64, u32)>() {
                        Ok((t, i)) if t == tag => {
                            if i != next || ev.id() != event {
                                sh.fail("event-order", format!("tag {}: expected event #{} of id {}, got #{} of id {}", tag, next, event, i, ev.id()));
                                break;
                            }
                            next += 1;
                        }
                        Ok(_) => {} // somebody else's emit request on the same subscription
                        Err(e) => {
                            sh.fail("event-payload", format!("event payload does not decode: {:?}", e));
                            break;
                        }
                    }
                }
                if unsubscribe {
                    if use_all {
                        sh.op("unsubscribe_all");
                        if let Err(e) = p.unsubscribe_all().await {
                            unexpected(&sh, "unsubscribe_all", &e);
                        }
                    } else {
                        sh.op("unsubscribe");
                        if let Err(e) = p.unsubscribe(event).await {
                            unexpected(&sh, "unsubscribe", &e);
                        }
                    }
                }
            }
            Step::DropProxy { server } => {
                sh.op("drop:proxy");
                proxies[server] = None;
            }
            Step::Channel { peer, sender_here, capacity, items, consumer_stops_after, producer_drops_after } => {
                channel_step(&env, me, peer, sender_here, capacity, items, consumer_stops_after, producer_drops_after, &name, si).await;
            }
            Step::Listener { nfilters, scope } => {
                sh.op("create_bus_listener");
                let mut l = match h.create_bus_listener().await {
                    Ok(l) => l,
                    Err(e) => {
                        unexpected(&sh, "create_bus_listener", &e);
                        continue;
                    }
                };
                for k in 0..nfilters {
                    sh.op("add_filter");
                    let f = match k % 4 {
                        0 => BusListenerFilter::any_object(),
                        1 => BusListenerFilter::any_object_any_service(),
                        2 => BusListenerFilter::object(env.servers[0].0.obj),
                        _ => BusListenerFilter::any_object_specific_service(env.servers[0].0.svc),
                    };
                    let _ = l.add_filter(f);
                }
                let scope = match scope {
                    0 => BusListenerScope::Current,
                    1 => BusListenerScope::New,
                    _ => BusListenerScope::All,
                };
                sh.op("listener.start");
                if let Err(e) = l.start(scope).await {
                    unexpected(&sh, "listener.start", &e);
                }
                if scope == BusListenerScope::Current {
                    // all current events, then the end
                    let mut n = 0;
                    loop {
                        sh.op("listener.next_event");
                        match l.next_event().await {
                            Some(_) => n += 1,
                            None => break,
                        }
                        if n > 10_000 {
                            sh.fail("listener-runaway", "more than 10000 current events".into());
                            break;
                        }
                    }
                    if !l.is_finished() {
                        sh.fail("listener-finished", "next_event returned None but is_finished is false".into());
                    }
                }
                if si % 2 == 0 {
                    sh.op("listener.stop");
                    match l.stop().await {
                        Ok(()) => {}
                        Err(e) => unexpected(&sh, "listener.stop", &e),
                    }
                    sh.op("listener.destroy");
                    if let Err(e) = l.destroy().await {
                        unexpected(&sh, "listener.destroy", &e);
                    }
                } else {
                    sh.op("drop:listener");
                }
            }
            Step::Lifetime => {
                sh.op("create_lifetime_scope");
                let scope = match h.create_lifetime_scope().await {
                    Ok(s) => s,
                    Err(e) => {
                        unexpected(&sh, "create_lifetime_scope", &e);
                        continue;
                    }
                };
                sh.op("create_lifetime");
                let mut lt = match h.create_lifetime(scope.id()).await {
                    Ok(l) => l,
                    Err(e) => {
                        unexpected(&sh, "create_lifetime", &e);
                        continue;
                    }
                };
                if lt.has_ended() {
                    sh.fail("lifetime-early", "lifetime reports ended while its scope is alive".into());
                }
                sh.op("scope.end");
                if let Err(e) = scope.end().await {
                    unexpected(&sh, "scope.end", &e);
                }
                sh.op("lifetime.ended");
                lt.ended().await;
            }
            Step::Discover { server, wait } => {
                let Some(id) = env.servers[server].1.wait().await else { continue };
                let cfg = &env.servers[server].0;
                let r = if wait {
                    sh.op("wait_for_object_with_services");
                    h.wait_for_object_with_services(cfg.obj, [cfg.svc]).await.map(|(o, s)| Some((o, s)))
                } else {
                    sh.op("find_object_with_services");
                    h.find_object_with_services(cfg.obj, [cfg.svc]).await
                };
                match r {
                    Ok(Some((o, s))) => {
                        if o != id.object_id || s.first() != Some(&id) {
                            sh.fail("discover-ids", format!("discovery returned {:?}/{:?}, service is {:?}", o, s, id));
                        }
                    }
                    Ok(None) => sh.fail("discover-missed", format!("find_object did not find the live service {:?}", id)),
                    Err(e) => unexpected(&sh, "discover", &e),
                }
            }
            Step::DeadProxy => {
                // a proxy to a service that has been destroyed
                let uuid = ObjectUuid(Uuid::from_u128(0xC06_D000_0000 + env.nonce() as u128));
                let Ok(obj) = h.create_object(uuid).await else { continue };
                let Ok(svc) = obj.create_service(ServiceUuid(Uuid::from_u128(0xC06_E000)), aldrin::low_level::ServiceInfo::new(1)).await else { continue };
                let id = svc.id();
                sh.op("create_proxy");
                let p = h.create_proxy(id).await;
                sh.op("service.destroy");
                let _ = svc.destroy().await;
                match p {
                    Ok(p) => {
                        sh.op("call:dead");
                        match p.call(0, 1u64, None).await {
                            Err(aldrin::Error::InvalidService) => {}
                            other => sh.fail("dead-proxy-call", format!("call on a destroyed service returned {:?}", other.map(|_| ()))),
                        }
                    }
                    Err(e) => unexpected(&sh, "create_proxy", &e),
                }
                sh.op("create_proxy:dead");
                match h.create_proxy(id).await {
                    Err(aldrin::Error::InvalidService) => {}
                    other => sh.fail("dead-proxy-create", format!("proxy for a destroyed service: {:?}", other.map(|_| ()))),
                }
            }
            Step::ProxyFamily { server, event, subs, leave, by_drop } => {
                let Some(id) = env.servers[server].1.wait().await else { continue };
                let other = (event + 1) % 3;
                let mut fam: Vec<Option<Proxy>> = Vec::new();
                // what each proxy is subscribed to: (event, all events, other event)
                let mut eff: Vec<(bool, bool, bool)> = Vec::new();
                let mut broken = false;
                for &(sub, all, sub_other) in &subs {
                    let mut p = match proxy(&sh, &h, id).await {
                        Ok(p) => p,
                        Err(e) => {
                            unexpected(&sh, "create_proxy", &e);
                            broken = true;
                            break;
                        }
                    };
                    let mut e = (false, false, false);
                    if sub && all && p.can_subscribe_all() && env.versions[me] >= 18 {
                        sh.op("subscribe_all");
                        match p.subscribe_all().await {
                            Ok(()) => e.1 = true,
                            Err(err) => unexpected(&sh, "subscribe_all", &err),
                        }
                    } else if sub {
                        sh.op("subscribe");
                        match p.subscribe(event).await {
                            Ok(()) => e.0 = true,
                            Err(err) => unexpected(&sh, "subscribe", &err),
                        }
                    }
                    if sub_other {
                        sh.op("subscribe");
                        match p.subscribe(other).await {
                            Ok(()) => e.2 = true,
                            Err(err) => unexpected(&sh, "subscribe", &err),
                        }
                    }
                    fam.push(Some(p));
                    eff.push(e);
                }
                if broken {
                    continue;
                }
                for round in 0..2 {
                    // one emit request per event id, through any proxy that is still there
                    let mut tags = [0u64; 2];
                    let mut failed = false;
                    for (k, ev_id) in [event, other].into_iter().enumerate() {
                        let tag = env.nonce();
                        tags[k] = tag;
                        let Some(caller) = fam.iter().flatten().next() else { break };
                        sh.op("call:fn5");
                        match caller.call(FN_EMIT, (ev_id, 2u32, tag), None).await {
                            Ok(r) => {
                                if !matches!(r.deserialize::<u64, u64>(), Ok(Ok(t)) if t == tag) {
                                    sh.fail("call-result:fn5", format!("emit request with tag {} answered with something else", tag));
                                }
                            }
                            Err(e) => {
                                unexpected(&sh, "call:fn5", &e);
                                failed = true;
                            }
                        }
                    }
                    if failed {
                        break;
                    }
                    // everything the broker sent before the replies has been handled by the client
                    // once a later request of this client has been answered
                    sh.op("sync_broker");
                    if let Err(e) = h.sync_broker().await {
                        unexpected(&sh, "sync_broker", &e);
                        break;
                    }
                    for (i, slot) in fam.iter_mut().enumerate() {
                        let Some(p) = slot.as_mut() else { continue };
                        let want_event = eff[i].0 || eff[i].1;
                        let want_other = eff[i].2 || eff[i].1;
                        // drain what is queued on this proxy without waiting
                        let mut got = [0u32; 2];
                        loop {
                            let w = std::task::Waker::noop();
                            let mut cx = std::task::Context::from_waker(&w);
                            sh.op("next_event(poll)");
                            match p.poll_next_event(&mut cx) {
                                std::task::Poll::Ready(Some(ev)) => match ev.deserialize::<(u64, u32)>() {
                                    Ok((t, n)) => {
                                        for k in 0..2 {
                                            if t == tags[k] {
                                                let expect_id = if k == 0 { event } else { other };
                                                if ev.id() != expect_id || n != got[k] {
                                                    sh.fail("family-event-order", format!("proxy {} of the family: event #{} id {} for tag {}, expected #{} id {}", i, n, ev.id(), t, got[k], expect_id));
                                                }
                                                got[k] += 1;
                                            }
                                        }
                                    }
                                    Err(e) => sh.fail("event-payload", format!("event payload does not decode: {:?}", e)),
                                },
                                std::task::Poll::Ready(None) => break,
                                std::task::Poll::Pending => break,
                            }
                        }
                        for (k, want) in [want_event, want_other].into_iter().enumerate() {
                            let exp = if want { 2 } else { 0 };
                            if got[k] != exp {
                                sh.fail(
                                    if got[k] < exp { "family-event-missing" } else { "family-event-unsubscribed" },
                                    format!(
                                        "proxy {} of {} on one client (subscriptions event/all/other = {:?}, round {}, sibling {} {}): received {} of the 2 events of id {} emitted for tag {}, expected {}",
                                        i, subs.len(), eff[i], round, leave, if round == 0 { "still present" } else if by_drop { "dropped" } else { "unsubscribed" },
                                        got[k], if k == 0 { event } else { other }, tags[k], exp
                                    ),
                                );
                            }
                        }
                    }
                    if round == 0 {
                        if by_drop {
                            sh.op("drop:proxy");
                            fam[leave] = None;
                        } else if let Some(p) = fam[leave].as_mut() {
                            if eff[leave].1 {
                                sh.op("unsubscribe_all");
                                if let Err(e) = p.unsubscribe_all().await {
                                    unexpected(&sh, "unsubscribe_all", &e);
                                }
                                // unsubscribe_all ends every subscription of this proxy
                                eff[leave] = (false, false, false);
                            } else {
                                sh.op("unsubscribe");
                                if let Err(e) = p.unsubscribe(event).await {
                                    unexpected(&sh, "unsubscribe", &e);
                                }
                                eff[leave].0 = false;
                            }
                        }
                    }
                }
                sh.op("drop:proxy");
                drop(fam);
            }
            Step::Introspect { ty, via } => {
                if env.faulty {
                    // with a dying registrant the answer depends on when it dies: only exercised
                    continue;
                }
                sh.op("register_introspection");
                let dynty = intro_type(ty);
                let type_id = aldrin_core::TypeId::compute_from_dyn(dynty);
                if let Err(e) = h.register_introspection_dyn(dynty) {
                    unexpected(&sh, "register_introspection", &e);
                    continue;
                }
                sh.op("submit_introspection");
                if let Err(e) = h.submit_introspection() {
                    unexpected(&sh, "submit_introspection", &e);
                    continue;
                }
                sh.op("sync_broker");
                if let Err(e) = h.sync_broker().await {
                    unexpected(&sh, "sync_broker", &e);
                    continue;
                }
                if env.abandoned(via) {
                    continue;
                }
                let q = env.h(via);
                sh.op("query_introspection");
                match q.query_introspection(type_id).await {
                    Ok(Some(i)) => {
                        if i.type_id() != type_id {
                            sh.fail("introspection-wrong-type", format!("query for {:?} returned the introspection of {:?}", type_id, i.type_id()));
                        }
                    }
                    Ok(None) => {
                        // registration needs protocol 1.17 on the registrant, the query on the asker
                        if env.versions[me] >= 17 && env.versions[via] >= 17 {
                            sh.fail("introspection-missing", format!("client {} registered and submitted {:?} (acknowledged by a later sync), the query through client {} returned None", me, type_id, via));
                        }
                    }
                    Err(e) => unexpected(&sh, "query_introspection", &e),
                }
                sh.op("query_introspection:unknown");
                let bogus = aldrin_core::TypeId(Uuid::from_u128(0xC06_F000_0000 + env.nonce() as u128));
                match q.query_introspection(bogus).await {
                    Ok(None) => {}
                    Ok(Some(i)) => sh.fail("introspection-invented", format!("query for a type id nobody registered returned {:?}", i.type_id())),
                    Err(e) => unexpected(&sh, "query_introspection", &e),
                }
            }
            Step::DoubleClaim { peer1, peer2 } => {
                double_claim(&env, me, peer1, peer2).await;
            }
        }
    }
    if env.post_mortem && !env.abandoned(me) {
        post_mortem(&sh, &h, proxies.iter().flatten().next()).await;
    }
    sh.op("drop:proxy");
    drop(proxies);
}

/// Operations started late in the life of a client (possibly after it has stopped): each one
/// must resolve; once `Client::run` has returned they must all report the shutdown.
pub async fn post_mortem(sh: &Sh, h: &Handle, p: Option<&Proxy>) {
    let dead_before = h.sync_client().await == Err(aldrin::Error::Shutdown);
    let mut results: Vec<(&str, bool)> = Vec::new();
    sh.op("late:sync_client");
    results.push(("sync_client", h.sync_client().await == Err(aldrin::Error::Shutdown)));
    sh.op("late:sync_broker");
    results.push(("sync_broker", h.sync_broker().await == Err(aldrin::Error::Shutdown)));
    sh.op("late:create_object");
    results.push(("create_object", matches!(h.create_object(ObjectUuid(Uuid::from_u128(0xC15_0000_0000 + results.len() as u128))).await, Err(aldrin::Error::Shutdown))));
    sh.op("late:create_bus_listener");
    results.push(("create_bus_listener", matches!(h.create_bus_listener().await, Err(aldrin::Error::Shutdown))));
    sh.op("late:create_lifetime_scope");
    results.push(("create_lifetime_scope", matches!(h.create_lifetime_scope().await, Err(aldrin::Error::Shutdown))));
    sh.op("late:claim_sender");
    results.push(("claim_sender", matches!(h.create_low_level_channel().claim_sender().await, Err(aldrin::Error::Shutdown))));
    sh.op("late:version");
    results.push(("version", matches!(h.version().await, Err(aldrin::Error::Shutdown))));
    sh.op("late:find_object");
    results.push(("find_object", matches!(h.find_bare_object(ObjectUuid(Uuid::from_u128(77))).await, Err(aldrin::Error::Shutdown))));
    if let Some(p) = p {
        sh.op("late:call");
        results.push(("call", matches!(p.call(FN_ECHO, 1u64, None).await, Err(aldrin::Error::Shutdown))));
        sh.op("late:subscribe");
        results.push(("subscribe", matches!(p.subscribe(0).await, Err(aldrin::Error::Shutdown))));
    }
    if dead_before {
        for (name, shut) in results {
            if !shut {
                sh.hard_fail(&format!("late-operation:{}", name), format!("{} started after the client had stopped did not report the shutdown", name));
            }
        }
    }
}

#[allow(clippy::too_many_arguments)]
async fn channel_step(env: &Rc<Env>, me: usize, peer: usize, sender_here: bool, capacity: u32, items: u32, consumer_stops_after: Option<u32>, producer_drops_after: Option<u32>, name: &str, si: usize) {
    let sh = env.sh.clone();
    let (prod_c, cons_c) = if sender_here { (me, peer) } else { (peer, me) };
    if env.abandoned(prod_c) || env.abandoned(cons_c) {
        return;
    }
    let hp = env.h(prod_c);
    let hc = env.h(cons_c);
    let tag = env.nonce();
    let received: Rc<std::cell::RefCell<Vec<u32>>> = Rc::new(std::cell::RefCell::new(Vec::new()));
    let rec2 = received.clone();
    let cons_done: Signal<bool> = Signal::new();
    let cd2 = cons_done.clone();
    let sh2 = sh.clone();
    sh.op("create_channel");
    if sender_here {
        // here: sender claimed; the other client claims the receiver
        let (pending_sender, unclaimed_receiver) = match hp.create_low_level_channel().claim_sender().await {
            Ok(x) => x,
            Err(e) => return unexpected(&sh, "channel.claim_sender", &e),
        };
        let unbound = unclaimed_receiver.unbind();
        sh.spawn_app(&format!("{}-consumer{}@{}", name, si, cons_c), true, cons_c, async move {
            sh2.op("receiver.claim");
            match unbound.claim(hc, capacity).await {
                Ok(mut rx) => consume(&sh2, &mut rx, tag, consumer_stops_after, &rec2).await,
                Err(e) => unexpected(&sh2, "receiver.claim", &e),
            }
            cd2.set(true);
        });
        sh.op("sender.establish");
        match pending_sender.establish().await {
            Ok(mut tx) => produce(&sh, &mut tx, tag, items, producer_drops_after, consumer_stops_after.is_some()).await,
            Err(e) => unexpected(&sh, "sender.establish", &e),
        }
    } else {
        // here: receiver claimed; the other client claims the sender and produces
        let (unclaimed_sender, pending_receiver) = match hc.create_low_level_channel().claim_receiver(capacity).await {
            Ok(x) => x,
            Err(e) => return unexpected(&sh, "channel.claim_receiver", &e),
        };
        let unbound = unclaimed_sender.unbind();
        let stops = consumer_stops_after.is_some();
        sh.spawn_app(&format!("{}-producer{}@{}", name, si, prod_c), true, prod_c, async move {
            sh2.op("sender.claim");
            match unbound.claim(hp).await {
                Ok(mut tx) => produce(&sh2, &mut tx, tag, items, producer_drops_after, stops).await,
                Err(e) => unexpected(&sh2, "sender.claim", &e),
            }
            cd2.set(true);
        });
        sh.op("receiver.establish");
        match pending_receiver.establish().await {
            Ok(mut rx) => consume(&sh, &mut rx, tag, consumer_stops_after, &received).await,
            Err(e) => unexpected(&sh, "receiver.establish", &e),
        }
    }
    cons_done.wait().await;
    // exactly-once, in order: what arrived is a prefix of what was sent
    let got = received.borrow().clone();
    let sent = producer_drops_after.map(|d| d.min(items)).unwrap_or(items);
    for (i, g) in got.iter().enumerate() {
        if *g != i as u32 {
            sh.fail("channel-order", format!("channel {}: item #{} carries number {}", tag, i, g));
            return;
        }
    }
    if consumer_stops_after.is_none() && got.len() as u32 != sent {
        sh.fail("channel-loss", format!("channel {}: {} items sent, {} received (capacity {})", tag, sent, got.len(), capacity));
    }
    if got.len() as u32 > sent {
        sh.fail("channel-dup", format!("channel {}: {} items sent, {} received", tag, sent, got.len()));
    }
}

async fn produce(sh: &Sh, tx: &mut aldrin::low_level::Sender, tag: u64, items: u32, drops_after: Option<u32>, consumer_may_stop: bool) {
    for i in 0..items {
        if drops_after == Some(i) {
            sh.op("drop:sender");
            return;
        }
        // applications typically watch for the receiver going away while they produce
        if (tag + i as u64) % 3 == 0 {
            sh.op("receiver_closed(poll)");
            if cancel_after(tx.receiver_closed(), 1 + ((tag as u32 + i) % 12)).await.is_some() && !consumer_may_stop {
                sh.fail("receiver-closed-spurious", format!("channel {}: receiver_closed() resolved while the consumer is alive", tag));
            }
        }
        sh.op("send_item");
        if let Err(e) = tx.send_item((tag, i)).await {
            if !(consumer_may_stop && e == aldrin::Error::InvalidChannel) {
                sh.fail("send-item", format!("channel {}: sending item {} failed with {:?} while the consumer is alive and reading", tag, i, e));
            }
            return;
        }
    }
    sh.op("sender.close");
    if let Err(e) = tx.close().await {
        if !consumer_may_stop {
            unexpected(sh, "sender.close", &e);
        }
    }
}

async fn consume(sh: &Sh, rx: &mut aldrin::low_level::Receiver, tag: u64, stops_after: Option<u32>, into: &Rc<std::cell::RefCell<Vec<u32>>>) {
    let mut n = 0u32;
    loop {
        if stops_after == Some(n) {
            sh.op("receiver.close");
            let _ = rx.close().await;
            return;
        }
        sh.op("next_item");
        match rx.next_item::<(u64, u32)>().await {
            Ok(Some((t, i))) => {
                if t != tag {
                    sh.fail("channel-foreign-item", format!("channel {} delivered an item of channel {}", tag, t));
                }
                into.borrow_mut().push(i);
                n += 1;
            }
            Ok(None) => return,
            Err(e) => {
                sh.fail("next-item", format!("channel {}: {:?}", tag, e));
                return;
            }
        }
    }
}

/// An unbound channel end is claimed twice: the second claim must fail and must not disturb
/// the first claimer.
async fn double_claim(env: &Rc<Env>, me: usize, peer1: usize, peer2: usize) {
    let sh = env.sh.clone();
    if env.abandoned(me) || env.abandoned(peer1) || env.abandoned(peer2) {
        return;
    }
    let h = env.h(me);
    if (me + peer1 + 2 * peer2) % 2 == 1 {
        return double_claim_receiver(env, me, peer1, peer2).await;
    }
    sh.op("double_claim");
    let (unclaimed_sender, pending_receiver) = match h.create_low_level_channel().claim_receiver(4).await {
        Ok(x) => x,
        Err(e) => return unexpected(&sh, "channel.claim_receiver", &e),
    };
    let unbound = unclaimed_sender.unbind();
    let mut tx = match unbound.claim(env.h(peer1)).await {
        Ok(tx) => tx,
        Err(e) => return unexpected(&sh, "sender.claim", &e),
    };
    match unbound.claim(env.h(peer2)).await {
        Err(aldrin::Error::InvalidChannel) => {}
        Ok(_) => return sh.fail("double-claim-accepted", "the same channel end was claimed twice".into()),
        Err(e) => unexpected(&sh, "second-claim", &e),
    }
    let mut rx = match pending_receiver.establish().await {
        Ok(rx) => rx,
        Err(e) => return unexpected(&sh, "receiver.establish", &e),
    };
    // the first claimer is unaffected
    if let Err(e) = tx.send_item(7u32).await {
        return sh.fail("double-claim-disturbs-first", format!("after a failed second claim the first claimer's send_item fails with {:?}", e));
    }
    match rx.next_item::<u32>().await {
        Ok(Some(7)) => {}
        other => sh.fail("double-claim-disturbs-first", format!("after a failed second claim the receiver got {:?}", other)),
    }
    let _ = tx.close().await;
    let _ = rx.close().await;
}

/// The mirror image: the receiver end is claimed twice (the second time by the same or by
/// another client); the established channel must keep working in both directions of the protocol
/// (items flow, capacity is replenished) after the refused claim and after everything the
/// refused claimer's handle does when it is dropped.
async fn double_claim_receiver(env: &Rc<Env>, me: usize, peer1: usize, peer2: usize) {
    let sh = env.sh.clone();
    let h = env.h(me);
    sh.op("double_claim_receiver");
    let (pending_sender, unclaimed_receiver) = match h.create_low_level_channel().claim_sender().await {
        Ok(x) => x,
        Err(e) => return unexpected(&sh, "channel.claim_sender", &e),
    };
    let unbound = unclaimed_receiver.unbind();
    let mut rx = match unbound.claim(env.h(peer1), 2).await {
        Ok(rx) => rx,
        Err(e) => return unexpected(&sh, "receiver.claim", &e),
    };
    let mut tx = match pending_sender.establish().await {
        Ok(tx) => tx,
        Err(e) => return unexpected(&sh, "sender.establish", &e),
    };
    match unbound.claim(env.h(peer2), 1).await {
        Err(aldrin::Error::InvalidChannel) => {}
        Ok(_) => return sh.fail("double-claim-accepted", "the same channel end was claimed twice".into()),
        Err(e) => unexpected(&sh, "second-claim", &e),
    }
    // let the refused claimer's clean-up reach the broker before the channel is used
    let _ = env.h(peer2).sync_broker().await;
    // more items than the capacity: the receiver's grants have to reach the sender as well
    for i in 0..5u32 {
        if let Err(e) = tx.send_item(i).await {
            return sh.fail("double-claim-disturbs-first", format!("after a refused second claim of the receiver the sender's send_item({}) fails with {:?}", i, e));
        }
        match rx.next_item::<u32>().await {
            Ok(Some(x)) if x == i => {}
            other => return sh.fail("double-claim-disturbs-first", format!("after a refused second claim of the receiver, item {} arrived as {:?}", i, other)),
        }
    }
    let _ = tx.close().await;
    match rx.next_item::<u32>().await {
        Ok(None) => {}
        other => sh.fail("double-claim-disturbs-first", format!("after the sender closed, the receiver got {:?}", other)),
    }
    let _ = rx.close().await;
}

pub struct RunReport {
    pub fails: Vec<(String, String)>,
    pub log: Vec<String>,
    pub trace: u64,
    pub polls: u64,
    pub inconclusive: Option<String>,
    /// ready transport operations at (client side, broker side) of the victim's pipe
    pub victim_ops: (u64, u64),
    pub victim_run: Option<String>,
    pub victim_conn: Option<String>,
    /// the fault / clean cause was actually reached
    pub triggered: bool,
}

#[derive(Clone, Copy, Debug, PartialEq, Eq)]
pub enum Clean {
    /// Handle::shutdown
    ShutdownRequested,
    /// every handle, object, proxy ... of the client is dropped
    LastHandleDropped,
    /// BrokerHandle::shutdown
    BrokerShutdown,
    /// BrokerHandle::shutdown_connection
    ForcedByBroker,
    /// two clean causes at the same moment: Handle::shutdown and BrokerHandle::shutdown
    ShutdownAndBrokerShutdown,
}

#[derive(Clone, Debug, Default)]
pub struct RunOpts {
    pub victim: Option<usize>,
    /// (side of the victim's pipe, index of the ready transport operation, kind)
    pub fault: Option<(usize, u64, crate::bus::pipe::FaultKind)>,
    /// clean termination once the victim's client side has done this many transport operations
    pub clean: Option<(u64, Clean)>,
}

/// Runs one program under one schedule seed.
pub fn run_program(prog: &Program, sched_seed: u64, out: &mut Outcome) -> RunReport {
    run_program_opts(prog, sched_seed, &RunOpts::default(), out)
}

pub fn run_program_opts(prog: &Program, sched_seed: u64, opts: &RunOpts, out: &mut Outcome) -> RunReport {
    let mut rng = Rng::new(sched_seed);
    let mut w = World::new();
    w.dx.spurious = (1, 40);
    let faulty = opts.victim.is_some();
    let mut rep = RunReport { fails: Vec::new(), log: Vec::new(), trace: 0, polls: 0, inconclusive: None, victim_ops: (0, 0), victim_run: None, victim_conn: None, triggered: false };
    let mut versions = Vec::new();
    for (caps, minor) in &prog.clients {
        match w.add_client(*caps, *minor, &mut rng) {
            Ok(_) => versions.push(minor.unwrap_or(20)),
            Err(e) => {
                rep.fails.push(("connect".into(), format!("client could not connect: {}", e)));
                return rep;
            }
        }
    }
    w.sh.0.tolerant.set(faulty);
    if let Some(v) = opts.victim {
        w.clients[v].pipe.borrow_mut().ends[0].log_ops = true;
        w.clients[v].pipe.borrow_mut().ends[1].log_ops = true;
    }
    if let (Some(v), Some((side, k, kind))) = (opts.victim, opts.fault) {
        // operation indices count from the end of the handshake
        let base = w.ops_done(v, side);
        w.set_fault(v, side, base + k, kind);
    }
    let base_ops = opts.victim.map(|v| w.ops_done(v, CLIENT_SIDE)).unwrap_or(0);
    let handles: Vec<Option<Handle>> = (0..prog.clients.len()).map(|c| Some(w.handle(c))).collect();
    let servers: Vec<(ServerCfg, Signal<Option<ServiceId>>)> = prog.servers.iter().map(|s| (s.clone(), Signal::new())).collect();
    for (i, (cfg, ready)) in servers.iter().enumerate() {
        let f = server(w.sh.clone(), handles[cfg.client].clone().unwrap(), cfg.clone(), ready.clone());
        w.sh.spawn_app(&format!("server{}@{}", i, cfg.client), true, cfg.client, f);
    }
    let env = Rc::new(Env {
        sh: w.sh.clone(),
        handles: std::cell::RefCell::new(handles),
        versions,
        servers,
        nonce: Rc::new(Cell::new(0)),
        abandon: std::cell::RefCell::new(vec![false; prog.clients.len()]),
        post_mortem: faulty,
        faulty,
    });
    for (i, (c, steps)) in prog.apps.iter().enumerate() {
        let name = format!("app{}@{}", i, c);
        w.sh.spawn_app(&name, false, *c, app(env.clone(), *c, name.clone(), steps.clone()));
    }
    // a task that only starts working once the victim's client has stopped
    let dead: Signal<bool> = Signal::new();
    if let Some(v) = opts.victim {
        let (sh2, h2, d2) = (w.sh.clone(), w.handle(v), dead.clone());
        w.sh.spawn_app(&format!("late@{}", v), true, v, async move {
            d2.wait().await;
            post_mortem(&sh2, &h2, None).await;
        });
    }
    // phase 1
    let clean_done_flag = Rc::new(Cell::new(false));
    let cdf = clean_done_flag.clone();
    let mut triggered = opts.fault.is_some();
    let mut clean_done = false;
    let env2 = env.clone();
    let dead2 = dead.clone();
    let clean = opts.clean;
    let victim = opts.victim;
    let mut hook = |w: &mut World| {
        let Some(v) = victim else { return };
        if let (Some((k, cause)), false) = (clean, clean_done) {
            if w.ops_done(v, CLIENT_SIDE) >= base_ops + k {
                clean_done = true;
                cdf.set(true);
                triggered = true;
                match cause {
                    Clean::ShutdownRequested => {
                        if let Some(h) = &w.clients[v].handle {
                            h.shutdown();
                        }
                    }
                    Clean::LastHandleDropped => {
                        env2.abandon.borrow_mut()[v] = true;
                        env2.handles.borrow_mut()[v] = None;
                        w.clients[v].handle = None;
                    }
                    Clean::BrokerShutdown => {
                        let mut bh = w.bh.clone();
                        let _ = crate::bus::dx::now_or_never(async move { bh.shutdown().await });
                    }
                    Clean::ShutdownAndBrokerShutdown => {
                        if let Some(h) = &w.clients[v].handle {
                            h.shutdown();
                        }
                        let mut bh = w.bh.clone();
                        let _ = crate::bus::dx::now_or_never(async move { bh.shutdown().await });
                    }
                    Clean::ForcedByBroker => {
                        let mut bh = w.bh.clone();
                        let ch = w.clients[v].conn_handle.clone();
                        let _ = crate::bus::dx::now_or_never(async move { bh.shutdown_connection(&ch).await });
                    }
                }
            }
        }
        if w.dx.is_done(w.clients[v].run_task) && dead2.get().is_none() {
            dead2.set(true);
        }
    };
    // the trigger point may be the very end of the program: look once more at quiescence
    let mut end1 = w.run_with(&mut rng, 600_000, &mut hook);
    for _ in 0..3 {
        if end1 != RunEnd::Quiescent {
            break;
        }
        hook(&mut w);
        if !w.dx.any_ready() {
            break;
        }
        end1 = w.run_with(&mut rng, 600_000, &mut hook);
    }
    let _ = triggered;
    rep.triggered = opts.fault.is_some() || clean_done_flag.get();
    if let Some(v) = opts.victim {
        rep.victim_ops = (w.ops_done(v, CLIENT_SIDE) - base_ops, w.ops_done(v, BROKER_SIDE));
        rep.victim_run = w.clients[v].run_result.borrow().clone();
        rep.victim_conn = w.clients[v].conn_result.borrow().clone();
        let p = w.clients[v].pipe.borrow();
        let tail = |e: &crate::bus::pipe::EndState| String::from_utf8_lossy(&e.op_log[e.op_log.len().saturating_sub(24)..]).to_string();
        w.sh.log(format!("victim pipe: client-side ops ..{} (inbox {}, closed {}), broker-side ops ..{} (inbox {}, closed {})", tail(&p.ends[0]), p.ends[0].inbox.len(), p.ends[0].closed, tail(&p.ends[1]), p.ends[1].inbox.len(), p.ends[1].closed));
    }
    if end1 == RunEnd::Budget {
        rep.inconclusive = Some("poll budget used up in phase 1 (livelock or budget too small)".into());
    } else if !faulty {
        let stuck = w.unfinished(false);
        if !stuck.is_empty() {
            let log = w.sh.0.log.borrow();
            let last: Vec<String> = stuck.iter().map(|s| log.iter().rev().find(|l| l.starts_with(s.as_str())).cloned().unwrap_or_else(|| s.clone())).collect();
            rep.fails.push(("stuck".into(), format!("executor is quiescent but application tasks are still waiting: {:?}", last)));
        }
    } else if let Some(v) = opts.victim {
        // fault-injection run: the victim's client must have stopped, and everything that works
        // on its handles must have resolved
        let fault_hit = opts.fault.map(|(side, _, _)| w.clients[v].pipe.borrow().ends[side].broken.is_some()).unwrap_or(false);
        let stopped_expected = fault_hit || clean_done_flag.get();
        rep.triggered = stopped_expected;
        if stopped_expected {
            if !w.dx.is_done(w.clients[v].run_task) {
                rep.fails.push(("run-does-not-return".into(), format!("Client::run of the stopped client has not returned at executor quiescence (opts {:?})", opts)));
            }
            let left = w.unfinished_of(v);
            if !left.is_empty() {
                let log = w.sh.0.log.borrow();
                let last: Vec<String> = left.iter().map(|s| log.iter().rev().find(|l| l.starts_with(s.as_str())).cloned().unwrap_or_else(|| s.clone())).collect();
                rep.fails.push(("pending-operation-never-resolves".into(), format!("the client has stopped but operations on its handles are still pending at quiescence: {:?}", last)));
            }
            if !w.dx.is_done(w.clients[v].conn_task) {
                rep.fails.push(("connection-task-pending".into(), "the broker-side Connection::run has not returned although the client has stopped".into()));
            }
        }
    }
    // phase 2: all clients shut down
    drop(env);
    for c in 0..w.clients.len() {
        if let Some(h) = w.clients[c].handle.take() {
            h.shutdown();
        }
    }
    let end2 = w.run(&mut rng, 400_000);
    if end2 == RunEnd::Budget && rep.inconclusive.is_none() {
        rep.inconclusive = Some("poll budget used up in phase 2".into());
    }
    if end2 == RunEnd::Quiescent && rep.fails.is_empty() && !faulty {
        let left = w.unfinished(true);
        if !left.is_empty() {
            rep.fails.push(("stuck-after-shutdown".into(), format!("tasks still waiting after every client was shut down: {:?}", left)));
        }
        for (i, c) in w.clients.iter().enumerate() {
            let r = c.run_result.borrow().clone();
            match r.as_deref() {
                Some("Ok") => {}
                Some(other) => rep.fails.push((format!("client-run:{}", other.split('(').nth(1).unwrap_or("?").split('(').next().unwrap_or("?")), format!("Client::run of client {} returned {}", i, other))),
                None => rep.fails.push(("client-run-pending".into(), format!("Client::run of client {} did not return", i))),
            }
            let r = c.conn_result.borrow().clone();
            match r.as_deref() {
                Some("Ok") => {}
                Some(other) => rep.fails.push(("connection-run".into(), format!("Connection::run of client {} returned {}", i, other))),
                None => rep.fails.push(("connection-run-pending".into(), format!("Connection::run of client {} did not return", i))),
            }
        }
        // phase 3: idle shutdown
        let mut bh = w.bh.clone();
        let _ = crate::bus::dx::now_or_never(async move { bh.shutdown_idle().await });
        w.run(&mut rng, 50_000);
        if !w.dx.is_done(w.broker_task) && rep.fails.is_empty() {
            rep.fails.push(("idle-shutdown".into(), "all clients have shut down but the broker does not stop when idle".into()));
        }
    }
    if faulty && end2 == RunEnd::Quiescent {
        // whatever happened to the victim, the broker must end up empty and stop when idle
        let clean_all = opts.clean.map(|(_, c)| matches!(c, Clean::BrokerShutdown | Clean::ShutdownAndBrokerShutdown)).unwrap_or(false);
        if !clean_all {
            let mut bh = w.bh.clone();
            let _ = crate::bus::dx::now_or_never(async move { bh.shutdown_idle().await });
            w.run(&mut rng, 50_000);
        }
        if !w.dx.is_done(w.broker_task) {
            rep.fails.push(("broker-does-not-stop".into(), "after the fault and the shutdown of every client the broker does not stop when idle".into()));
        }
        for (i, c) in w.clients.iter().enumerate() {
            if !w.dx.is_done(c.run_task) {
                rep.fails.push(("client-run-pending".into(), format!("Client::run of client {} did not return after shutdown", i)));
            }
            if !w.dx.is_done(c.conn_task) {
                rep.fails.push(("connection-run-pending".into(), format!("Connection::run of client {} did not return", i)));
            }
        }
    }
    for (task, p) in w.dx.panics.clone() {
        rep.fails.push((format!("panic:{}:{}", task.trim_end_matches(char::is_numeric), crate::guard::panic_site(&p)), format!("task {} panicked: {}", task, p)));
    }
    rep.fails.extend(w.sh.0.fails.borrow().iter().cloned());
    for (k, v) in w.sh.0.ops.borrow().iter() {
        out.count(&format!("api:{}", k), *v);
    }
    rep.trace = w.dx.trace;
    rep.polls = w.dx.polls;
    rep.log = w.sh.0.log.borrow().clone();
    w.dx.shutdown();
    rep
}

impl Check for C06 {
    fn id(&self) -> &'static str {
        "C06"
    }
    fn level(&self) -> &'static str {
        "exploration"
    }
    fn rule(&self) -> &'static str {
        "one case = one (program, schedule): a generated multi-client program (2-4 real clients over FIFOs of size 1,2,4,16 or unbounded per direction, negotiated versions 1.14-1.20, 1-2 service loops, 1-2 application tasks per client with 3-8 steps each: sync, objects/services created-destroyed-dropped, calls of every outcome incl. cancelled ones, event subscriptions with emits, proxies dropped, channels with producer/consumer on different clients, bus listeners, lifetimes, discovery, proxies to dead services, double claims) run under a seeded random task schedule with spurious polls; distinct = hash of the executor's schedule trace, non-trivial = at least 200 polls"
    }
    fn assumptions(&self) -> Vec<String> {
        vec![
            "programs are deadlock-free by construction: every awaited operation is answered by the broker alone or by an unconditional helper task, so a task still waiting at executor quiescence is a lost wake-up or deadlock".into(),
            "task-level interleavings on one thread; thread-level races are out of reach (no shared mutable state outside futures-channel)".into(),
        ]
    }
    fn total_cases(&self, tier: Tier) -> u64 {
        match tier {
            Tier::Quick => 60000,
            Tier::Thorough => 2_000_000,
        }
    }
    fn run_case(&self, ctx: &Ctx, idx: u64, out: &mut Outcome) {
        // 4 schedules per program
        let pidx = idx / 4;
        let mut prng = Rng::derive(ctx.seed, 0xC06, pidx);
        let prog = gen_program(&mut prng, std::env::var("VERIF_NO_DOUBLE_CLAIM").is_err());
        let sched = Rng::derive(ctx.seed, 0xC06_5, idx).next_u64();
        let rep = run_program(&prog, sched, out);
        out.eval();
        out.count("polls", rep.polls);
        if rep.polls >= 200 {
            out.distinct_case(rep.trace ^ fnv(&pidx.to_le_bytes()));
        }
        if idx % 1001 == 0 {
            out.sample(json!({"case": idx, "program": format!("{:?}", prog).chars().take(1200).collect::<String>(), "polls": rep.polls}));
        }
        if let Some(w) = &rep.inconclusive {
            out.inconclusive(w.clone());
        }
        let tail: Vec<String> = rep.log.iter().rev().take(50).rev().cloned().collect();
        for (sig, detail) in &rep.fails {
            out.violation(sig.clone(), detail.clone(), json!({"case": idx, "seed": ctx.seed, "program": format!("{:?}", prog), "log_tail": tail}));
        }
    }
    fn gates(&self, _tier: Tier, merged: &Outcome) -> Vec<String> {
        let mut g = Vec::new();
        for op in ["api:call:fn0", "api:send_item", "api:next_event", "api:listener.start", "api:lifetime.ended", "api:cancelled:call", "api:wait_for_object_with_services"] {
            if merged.counters.get(op).copied().unwrap_or(0) == 0 {
                g.push(format!("operation {} was never exercised", op));
            }
        }
        g
    }
}
