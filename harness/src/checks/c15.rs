//! C15: client termination at every fault point. For a set of multi-operation programs a
//! counting run numbers the ready transport operations on the victim's pipe; the program is then
//! re-run (same program, same schedule seed) once per operation index and fault (error / end of
//! stream, client side and broker side of the pipe) and once per index and clean cause.

use super::c06::{gen_program, run_program_opts, Clean, Program, RunOpts, Step};
use super::Check;
use crate::bus::clientrig::{BROKER_SIDE, CLIENT_SIDE};
use crate::bus::pipe::FaultKind;
use crate::prng::{fnv, Rng};
use crate::report::{Ctx, Outcome, Tier};
use serde_json::json;

pub struct C15;

fn tame(mut p: Program) -> Program {
    // waiting for an object of a client that is about to die has no bounded answer
    for (_, steps) in p.apps.iter_mut() {
        for s in steps.iter_mut() {
            if let Step::Discover { wait, .. } = s {
                *wait = false;
            }
        }
        steps.retain(|s| !matches!(s, Step::DoubleClaim { .. }));
    }
    p
}

fn expected_run(cause: &str) -> &'static [&'static str] {
    match cause {
        "error" | "send-only" => &["Err(Transport(Injected))"],
        "eof" => &["Err(Transport(Disconnected))"],
        // a fault on the broker side of the pipe reaches the client as a closed stream
        "broker-side" => &["Err(Transport(Disconnected))"],
        _ => &["Ok"],
    }
}

impl Check for C15 {
    fn id(&self) -> &'static str {
        "C15"
    }
    fn level(&self) -> &'static str {
        "fault_enumeration"
    }
    fn rule(&self) -> &'static str {
        "one case = one generated multi-client program (as in C06, without unbounded waits on the victim) with a fixed schedule seed; a counting run numbers the N ready transport operations (receive, send, flush) on the victim's pipe after the handshake; one evaluation = one re-run with (a) an injected error or end of stream at client-side operation k for every k < N (quick: every k up to 40, then every 3rd), (b) the same on the broker side of the pipe, (c) one of the four clean causes (shutdown requested, last handle dropped, broker shutdown, forced by the broker handle) triggered when the client side has done k operations. Oracle: Client::run returns (the injected error / Disconnected / Ok), every task working on the victim's handles has finished at executor quiescence, operations started after the stop report the shutdown, the broker-side connection task has returned, and after all other clients shut down the broker stops when idle. distinct = (program, k, cause); non-trivial = the fault or cause was reached"
    }
    fn assumptions(&self) -> Vec<String> {
        vec![
            "the prefix of a re-run equals the counting run because program, schedule seed and transport are deterministic; a fault index beyond the operations of a run is skipped".into(),
            "tasks of *other* clients that wait for the dead client by design (e.g. a channel end it never claims) are not judged".into(),
        ]
    }
    fn total_cases(&self, tier: Tier) -> u64 {
        match tier {
            Tier::Quick => 96,
            Tier::Thorough => 8000,
        }
    }
    fn budget_s(&self, tier: Tier) -> u64 {
        match tier {
            Tier::Quick => 150,
            Tier::Thorough => 1500,
        }
    }
    fn run_case(&self, ctx: &Ctx, idx: u64, out: &mut Outcome) {
        let mut prng = Rng::derive(ctx.seed, 0xC15, idx);
        let prog = tame(gen_program(&mut prng, false));
        let sched = prng.next_u64();
        let victim = prng.below(prog.clients.len());
        // counting run
        let mut scratch = Outcome::default();
        let base = run_program_opts(&prog, sched, &RunOpts { victim: Some(victim), fault: None, clean: None }, &mut scratch);
        if base.inconclusive.is_some() {
            out.inconclusive(format!("counting run: {}", base.inconclusive.unwrap()));
            return;
        }
        let (n_client, n_broker) = base.victim_ops;
        out.count("programs", 1);
        out.max("transport_ops_client_side_max", n_client);
        out.count("transport_ops_client_side_total", n_client);
        let quick = ctx.tier == Tier::Quick;
        let ks = |n: u64| -> Vec<u64> { (0..n).filter(|k| !quick || *k < 40 || k % 3 == 0).collect() };
        let mut runs: Vec<(String, RunOpts)> = Vec::new();
        for k in ks(n_client) {
            runs.push(("error".into(), RunOpts { victim: Some(victim), fault: Some((CLIENT_SIDE, k, FaultKind::Error)), clean: None }));
            runs.push(("eof".into(), RunOpts { victim: Some(victim), fault: Some((CLIENT_SIDE, k, FaultKind::Eof)), clean: None }));
            runs.push(("send-only".into(), RunOpts { victim: Some(victim), fault: Some((CLIENT_SIDE, k, FaultKind::SendOnly)), clean: None }));
        }
        // broker-side operation indices include the handshake (2 operations)
        for k in ks(n_broker) {
            let kind = if k % 2 == 0 { FaultKind::Error } else { FaultKind::Eof };
            runs.push(("broker-side".into(), RunOpts { victim: Some(victim), fault: Some((BROKER_SIDE, k, kind)), clean: None }));
        }
        for k in ks(n_client + 1) {
            for c in [Clean::ShutdownRequested, Clean::BrokerShutdown, Clean::ForcedByBroker, Clean::ShutdownAndBrokerShutdown] {
                if quick && k % 2 == 1 && k > 10 {
                    continue;
                }
                runs.push((format!("{:?}", c), RunOpts { victim: Some(victim), fault: None, clean: Some((k, c)) }));
            }
        }
        // a half-open transport exactly while the client says goodbye
        for k in ks(n_client + 1) {
            runs.push(("shutdown+send-only".into(), RunOpts { victim: Some(victim), fault: Some((CLIENT_SIDE, k, FaultKind::SendOnly)), clean: Some((k, Clean::ShutdownRequested)) }));
        }
        for (cause, opts) in runs {
            let rep = run_program_opts(&prog, sched, &opts, out);
            out.eval();
            if !rep.triggered {
                out.count("fault_index_not_reached", 1);
                continue;
            }
            out.count(&format!("fault_runs[{}]", cause), 1);
            let key = format!("{}-{:?}", idx, opts);
            out.distinct_case(fnv(key.as_bytes()));
            if let Some(w) = &rep.inconclusive {
                out.inconclusive(w.clone());
                continue;
            }
            let tail: Vec<String> = rep.log.iter().rev().take(40).rev().cloned().collect();
            let mut fails = rep.fails.clone();
            // result of Client::run
            match &rep.victim_run {
                Some(r) => {
                    out.seen("client_run_results", format!("{} -> {}", cause, r));
                    let mut ok = expected_run(&cause).contains(&r.as_str());
                    // a transport fault that only hits once the client is already draining
                    // after a shutdown may surface as either
                    if !ok && (cause == "error" || cause == "eof" || cause == "broker-side" || cause == "send-only" || cause == "shutdown+send-only") && (r == "Ok" || r.starts_with("Err(Transport(")) {
                        ok = true;
                        out.count("run_result_fault_during_drain", 1);
                    }
                    if !ok {
                        fails.push((format!("run-result:{}", cause), format!("Client::run returned {} after {} (Connection::run: {:?})", r, cause, rep.victim_conn)));
                    }
                }
                None => {}
            }
            if idx < 2 && out.samples.len() < 4 {
                out.sample(json!({"case": idx, "cause": cause, "opts": format!("{:?}", opts), "client_run": rep.victim_run, "connection_run": rep.victim_conn, "transport_ops": n_client}));
            }
            for (sig, detail) in &fails {
                out.violation(
                    format!("{}@{}", sig, cause.split('(').next().unwrap_or("")),
                    format!("{} | cause {} opts {:?}", detail, cause, opts),
                    json!({"case": idx, "seed": ctx.seed, "opts": format!("{:?}", opts), "program": format!("{:?}", prog), "log_tail": tail}),
                );
            }
            if !fails.is_empty() {
                return;
            }
        }
    }
    /// "Last handle dropped": a client whose application lets go of everything it holds, at
    /// every step boundary of a fixed script, under several schedules.
    fn once(&self, ctx: &Ctx, out: &mut Outcome) {
        use crate::bus::clientrig::World;
        use crate::bus::dx::RunEnd;
        use aldrin_core::{ObjectUuid, ServiceUuid};
        use uuid::Uuid;
        for drop_at in 0..8usize {
            for sched in 0..6u64 {
                let mut rng = Rng::derive(ctx.seed, 0xC15_D, drop_at as u64 * 100 + sched);
                let mut w = World::new();
                let caps = [(None, None), (Some(1), Some(1)), (Some(2), Some(16))][(sched % 3) as usize];
                if w.add_client(caps, None, &mut rng).is_err() || w.add_client((None, None), None, &mut rng).is_err() {
                    out.inconclusive("last-handle scenario: clients could not connect");
                    continue;
                }
                let h = w.clients[0].handle.take().unwrap();
                let peer = w.handle(1);
                let sh = w.sh.clone();
                w.sh.spawn_app("dropper@0", false, 0, async move {
                    let mut held: Vec<Box<dyn std::any::Any>> = Vec::new();
                    let mut step = 0usize;
                    macro_rules! boundary {
                        () => {
                            if step == drop_at {
                                sh.op("last-handle:drop-everything");
                                drop(held);
                                drop(h);
                                return;
                            }
                            step += 1;
                        };
                    }
                    boundary!();
                    if let Ok(o) = h.create_object(ObjectUuid(Uuid::from_u128(0xC15_A))).await {
                        if let Ok(s) = o.create_service(ServiceUuid(Uuid::from_u128(0xC15_B)), aldrin::low_level::ServiceInfo::new(1)).await {
                            let id = s.id();
                            held.push(Box::new(s));
                            boundary!();
                            if let Ok(p) = peer.create_proxy(id).await {
                                // a call from the peer stays pending at our (never served) service
                                let pending = p.call(0, 1u64, None);
                                held.push(Box::new(pending));
                                held.push(Box::new(p));
                            }
                        }
                        held.push(Box::new(o));
                    }
                    boundary!();
                    if let Ok(l) = h.create_bus_listener().await {
                        held.push(Box::new(l));
                    }
                    boundary!();
                    if let Ok((tx, rx)) = h.create_low_level_channel().claim_sender().await {
                        held.push(Box::new(tx));
                        held.push(Box::new(rx));
                    }
                    boundary!();
                    if let Ok(sc) = h.create_lifetime_scope().await {
                        held.push(Box::new(sc));
                    }
                    boundary!();
                    let _ = h.sync_broker().await;
                    boundary!();
                    let _ = step;
                    drop(held);
                    drop(h);
                });
                let end = w.run(&mut rng, 200_000);
                out.eval();
                out.count("fault_runs[LastHandleDropped]", 1);
                out.distinct_case(fnv(format!("lhd-{}-{}", drop_at, sched).as_bytes()));
                let replay = json!({"scenario": "last-handle-dropped", "drop_at_step": drop_at, "schedule": sched, "seed": ctx.seed});
                if end == RunEnd::Budget {
                    out.inconclusive("last-handle scenario: poll budget used up");
                    continue;
                }
                let r = w.clients[0].run_result.borrow().clone();
                out.seen("client_run_results", format!("LastHandleDropped -> {:?}", r));
                match r.as_deref() {
                    Some("Ok") => {}
                    Some(other) => out.violation("run-result@LastHandleDropped", format!("after the last handle was dropped Client::run returned {}", other), replay.clone()),
                    None => out.violation("run-does-not-return@LastHandleDropped", format!("every handle, object, proxy and channel end of the client was dropped (at step {}), Client::run has not returned at quiescence", drop_at), replay.clone()),
                }
                if r.is_some() && w.clients[0].conn_result.borrow().is_none() {
                    out.violation("connection-task-pending@LastHandleDropped", "the broker-side connection task has not returned".to_string(), replay.clone());
                }
                for (task, p) in w.dx.panics.clone() {
                    out.violation(format!("panic:{}:{}", task.trim_end_matches(char::is_numeric), crate::guard::panic_site(&p)), format!("task {} panicked: {}", task, p), replay.clone());
                }
                w.dx.shutdown();
            }
        }
        // "Shutdown requested" queued directly behind fire-and-forget requests (events, items,
        // calls whose reply nobody waits for): everything is put into the client's request queue
        // within one poll of the application task, so the client task finds the shutdown request
        // right behind them. The request must not be lost.
        const PATTERNS: [&[u8]; 10] = [b"", b"e", b"eee", b"i", b"ii", b"ei", b"ie", b"ce", b"eic", b"iiieee"];
        for (pi, pat) in PATTERNS.iter().enumerate() {
            for sched in 0..4u64 {
                let mut rng = Rng::derive(ctx.seed, 0xC15_E, pi as u64 * 100 + sched);
                let mut w = World::new();
                let caps = [(None, None), (Some(1), Some(1)), (Some(2), Some(16)), (Some(4), Some(2))][(sched % 4) as usize];
                if w.add_client(caps, None, &mut rng).is_err() || w.add_client((None, None), None, &mut rng).is_err() {
                    out.inconclusive("queued-shutdown scenario: clients could not connect");
                    continue;
                }
                let h = w.handle(0);
                let peer = w.handle(1);
                let sh = w.sh.clone();
                let pat: Vec<u8> = pat.to_vec();
                let after: std::rc::Rc<std::cell::RefCell<Option<String>>> = Default::default();
                let after2 = after.clone();
                w.sh.spawn_app("burst-then-shutdown@0", false, 0, async move {
                    let Ok(o) = h.create_object(ObjectUuid(Uuid::from_u128(0xC15_C))).await else { return };
                    let Ok(svc) = o.create_service(ServiceUuid(Uuid::from_u128(0xC15_D)), aldrin::low_level::ServiceInfo::new(1)).await else { return };
                    let Ok(px) = peer.create_proxy(svc.id()).await else { return };
                    let _ = px.subscribe(0).await;
                    // a second service on the peer, so that the victim can have calls in flight
                    let Ok(po) = peer.create_object(ObjectUuid(Uuid::from_u128(0xC15_E))).await else { return };
                    let Ok(psvc) = po.create_service(ServiceUuid(Uuid::from_u128(0xC15_F)), aldrin::low_level::ServiceInfo::new(1)).await else { return };
                    let Ok(vp) = h.create_proxy(psvc.id()).await else { return };
                    let Ok((pending_tx, unclaimed_rx)) = h.create_low_level_channel().claim_sender().await else { return };
                    let Ok(_rx) = unclaimed_rx.unbind().claim(peer.clone(), 16).await else { return };
                    let Ok(mut tx) = pending_tx.establish().await else { return };
                    let _ = h.sync_broker().await;
                    // ---- no suspension point from here to shutdown() ----
                    sh.op("queued-shutdown:burst");
                    let mut replies = Vec::new();
                    for (k, c) in pat.iter().enumerate() {
                        match c {
                            b'e' => {
                                let _ = svc.emit(0, k as u32);
                            }
                            b'i' => {
                                // capacity 16 was granted and announced: ready without waiting
                                if let Some(Ok(())) = crate::bus::dx::now_or_never(tx.send_ready()) {
                                    let _ = tx.start_send_item(k as u32);
                                }
                            }
                            _ => replies.push(vp.call(0, k as u32, None)),
                        }
                    }
                    h.shutdown();
                    // ---- from here on the client has been asked to stop ----
                    let r = h.sync_client().await;
                    *after2.borrow_mut() = Some(format!("{:?}", r));
                    drop(replies);
                    drop((svc, o, px, po, psvc, vp, tx, _rx));
                });
                let end = w.run(&mut rng, 200_000);
                out.eval();
                out.count("fault_runs[ShutdownBehindQueuedRequests]", 1);
                out.distinct_case(fnv(format!("sbq-{}-{}", pi, sched).as_bytes()));
                let replay = json!({"scenario": "shutdown-behind-queued-requests", "pattern": String::from_utf8_lossy(PATTERNS[pi]), "schedule": sched, "seed": ctx.seed});
                if end == RunEnd::Budget {
                    out.inconclusive("queued-shutdown scenario: poll budget used up");
                    continue;
                }
                let reached = w.sh.0.ops.borrow().get("queued-shutdown:burst").copied().unwrap_or(0) > 0;
                if !reached {
                    out.count("queued_shutdown_setup_incomplete", 1);
                    w.dx.shutdown();
                    continue;
                }
                let r = w.clients[0].run_result.borrow().clone();
                out.seen("client_run_results", format!("ShutdownBehindQueuedRequests -> {:?}", r));
                match r.as_deref() {
                    Some("Ok") => {}
                    Some(other) => out.violation("run-result@ShutdownBehindQueuedRequests", format!("shutdown() queued behind requests {:?}: Client::run returned {}", String::from_utf8_lossy(PATTERNS[pi]), other), replay.clone()),
                    None => out.violation("run-does-not-return@ShutdownBehindQueuedRequests", format!("Handle::shutdown() was queued directly behind the requests {:?} (e = emit, i = item, c = call): Client::run has not returned at quiescence", String::from_utf8_lossy(PATTERNS[pi])), replay.clone()),
                }
                match after.borrow().as_deref() {
                    Some("Err(Shutdown)") => {}
                    Some(other) if r.is_some() => out.violation("request-after-shutdown@ShutdownBehindQueuedRequests", format!("sync_client() issued after shutdown() (queued behind {:?}) returned {}", String::from_utf8_lossy(PATTERNS[pi]), other), replay.clone()),
                    _ => {}
                }
                for (task, p) in w.dx.panics.clone() {
                    out.violation(format!("panic:{}:{}", task.trim_end_matches(char::is_numeric), crate::guard::panic_site(&p)), format!("task {} panicked: {}", task, p), replay.clone());
                }
                w.dx.shutdown();
            }
        }
    }
    fn gates(&self, _tier: Tier, merged: &Outcome) -> Vec<String> {
        let mut g = Vec::new();
        for c in ["error", "eof", "send-only", "shutdown+send-only", "broker-side", "ShutdownRequested", "LastHandleDropped", "BrokerShutdown", "ForcedByBroker", "ShutdownBehindQueuedRequests"] {
            if merged.counters.get(&format!("fault_runs[{}]", c)).copied().unwrap_or(0) == 0 {
                g.push(format!("no run for cause {}", c));
            }
        }
        g
    }
}
