//! C19: client-side discovery and lifetime views converge to the bus state. Actors on several
//! real clients create and destroy objects and services over a small UUID pool under random
//! schedules; observers run discoverers of every entry shape (built, restarted, read at random
//! points), lifetimes and find/wait queries. Ground truth is what the actors hold at the end.

use super::Check;
use crate::bus::clientrig::*;
use crate::bus::dx::{cancel_after, RunEnd};
use crate::prng::{fnv, Rng};
use crate::report::{Ctx, Outcome, Tier};
use aldrin::low_level::{Service, ServiceInfo};
use aldrin::{Discoverer, DiscovererEventKind, Handle, Lifetime, LifetimeId, Object};
use aldrin_core::{ObjectId, ObjectUuid, ServiceId, ServiceUuid};
use serde_json::json;
use std::cell::{Cell, RefCell};
use std::collections::{BTreeMap, BTreeSet};
use std::rc::Rc;
use uuid::Uuid;

pub struct C19;

fn ou(i: usize) -> ObjectUuid {
    ObjectUuid(Uuid::from_u128(0xC19_0000 + i as u128))
}
fn su(i: usize) -> ServiceUuid {
    ServiceUuid(Uuid::from_u128(0xC19_1000 + i as u128))
}

#[derive(Clone, Debug)]
enum ActorStep {
    CreateObject(usize),
    DestroyObject(usize, bool),
    CreateService(usize, usize),
    DestroyService(usize, usize, bool),
    Sync,
}

#[derive(Clone, Debug)]
struct EntryCfg {
    object: Option<usize>,
    services: Vec<usize>,
}

#[derive(Clone, Debug)]
enum ObsStep {
    Read(u32),
    Restart,
    RestartCurrentOnly,
    Yield(u32),
}

#[derive(Clone, Debug)]
struct ObsCfg {
    entries: Vec<EntryCfg>,
    /// 0 build, 1 build_current_only, 2 build_current_only_and_wait
    build: u8,
    steps: Vec<ObsStep>,
}

#[derive(Clone, Debug)]
struct Prog {
    clients: Vec<((Option<usize>, Option<usize>), Option<u32>)>,
    actors: Vec<(usize, Vec<ActorStep>)>,
    observers: Vec<(usize, ObsCfg)>,
    finds: Vec<(usize, EntryCfg, bool)>,
}

/// Times at which an id was possibly alive: [create requested, destroy confirmed].
#[derive(Default)]
struct History {
    clock: Cell<u64>,
    objs: RefCell<Vec<(ObjectId, u64, Option<u64>)>>,
    svcs: RefCell<Vec<(ServiceId, u64, Option<u64>)>>,
}

impl History {
    fn tick(&self) -> u64 {
        self.clock.set(self.clock.get() + 1);
        self.clock.get()
    }
}

struct Held {
    objs: BTreeMap<usize, Object>,
    svcs: BTreeMap<(usize, usize), Service>,
}

const CAPS: [Option<usize>; 5] = [None, None, Some(1), Some(4), Some(16)];

fn gen(r: &mut Rng) -> Prog {
    let n = r.range(2, 3);
    let clients = (0..n).map(|_| ((*r.pick(&CAPS), *r.pick(&CAPS)), if r.chance(3, 4) { None } else { Some(16 + r.below(5) as u32) })).collect();
    let mut actors = Vec::new();
    for c in 0..n {
        let mut steps = Vec::new();
        for _ in 0..r.range(4, 14) {
            let o = r.below(3);
            let s = r.below(2);
            steps.push(match r.below(10) {
                0..=2 => ActorStep::CreateObject(o),
                3 => ActorStep::DestroyObject(o, r.bool()),
                4..=6 => ActorStep::CreateService(o, s),
                7 => ActorStep::DestroyService(o, s, r.bool()),
                _ => ActorStep::Sync,
            });
        }
        actors.push((c, steps));
    }
    let entry = |r: &mut Rng| EntryCfg {
        object: if r.bool() { Some(r.below(3)) } else { None },
        services: match r.below(4) {
            0 => vec![],
            1 => vec![0],
            2 => vec![1],
            _ => vec![0, 1],
        },
    };
    let mut observers = Vec::new();
    for _ in 0..r.range(1, 3) {
        let entries = (0..r.range(1, 3)).map(|_| entry(r)).collect();
        let steps = (0..r.range(0, 6))
            .map(|_| match r.below(6) {
                0 | 1 | 2 => ObsStep::Read(1 + r.below(4) as u32),
                3 => ObsStep::Restart,
                4 => ObsStep::RestartCurrentOnly,
                _ => ObsStep::Yield(1 + r.below(5) as u32),
            })
            .collect();
        observers.push((r.below(n), ObsCfg { entries, build: r.below(3) as u8, steps }));
    }
    let finds = (0..r.range(0, 3)).map(|_| (r.below(n), entry(r), r.bool())).collect();
    Prog { clients, actors, observers, finds }
}

async fn actor(sh: Sh, h: Handle, steps: Vec<ActorStep>, hist: Rc<History>, held: Rc<RefCell<Held>>, lifetimes: Rc<RefCell<Vec<(LifetimeId, Rc<Cell<bool>>)>>>) {
    // this actor's own objects (it can only manage what it created)
    let mut mine: BTreeMap<usize, Rc<Cell<bool>>> = BTreeMap::new();
    for st in steps {
        match st {
            ActorStep::CreateObject(o) => {
                sh.op("create_object");
                let t0 = hist.tick();
                match h.create_object(ou(o)).await {
                    Ok(obj) => {
                        hist.objs.borrow_mut().push((obj.id(), t0, None));
                        let ended = Rc::new(Cell::new(false));
                        lifetimes.borrow_mut().push((obj.lifetime_id(), ended.clone()));
                        mine.insert(o, ended);
                        held.borrow_mut().objs.insert(o, obj);
                    }
                    Err(aldrin::Error::DuplicateObject) => {}
                    Err(e) => sh.fail("create_object", format!("{:?}", e)),
                }
            }
            ActorStep::DestroyObject(o, explicit) => {
                if !mine.contains_key(&o) {
                    continue;
                }
                let Some(obj) = held.borrow_mut().objs.remove(&o) else { continue };
                let id = obj.id();
                // its services go with it
                let svcs: Vec<(usize, usize)> = held.borrow().svcs.keys().filter(|(oo, _)| *oo == o).copied().collect();
                let mut sids = Vec::new();
                for k in svcs {
                    if let Some(s) = held.borrow_mut().svcs.remove(&k) {
                        sids.push(s.id());
                        std::mem::forget(s);
                    }
                }
                if explicit {
                    sh.op("object.destroy");
                    let _ = obj.destroy().await;
                } else {
                    sh.op("drop:object");
                    drop(obj);
                    let _ = h.sync_broker().await;
                }
                let t1 = hist.tick();
                for e in hist.objs.borrow_mut().iter_mut().filter(|e| e.0 == id) {
                    e.2 = Some(t1);
                }
                for e in hist.svcs.borrow_mut().iter_mut().filter(|e| sids.contains(&e.0)) {
                    e.2 = Some(t1);
                }
                if let Some(f) = mine.remove(&o) {
                    f.set(true);
                }
            }
            ActorStep::CreateService(o, s) => {
                if !mine.contains_key(&o) {
                    continue;
                }
                // the object is taken out of the shared table while the request is in flight (no
                // RefCell borrow may be held across an await)
                let Some(obj) = held.borrow_mut().objs.remove(&o) else { continue };
                sh.op("create_service");
                let t0 = hist.tick();
                let r = obj.create_service(su(s), ServiceInfo::new(s as u32)).await;
                held.borrow_mut().objs.insert(o, obj);
                match r {
                    Ok(svc) => {
                        hist.svcs.borrow_mut().push((svc.id(), t0, None));
                        held.borrow_mut().svcs.insert((o, s), svc);
                    }
                    Err(aldrin::Error::DuplicateService) => {}
                    Err(e) => sh.fail("create_service", format!("{:?}", e)),
                }
            }
            ActorStep::DestroyService(o, s, explicit) => {
                if !mine.contains_key(&o) {
                    continue;
                }
                let Some(svc) = held.borrow_mut().svcs.remove(&(o, s)) else { continue };
                let id = svc.id();
                if explicit {
                    sh.op("service.destroy");
                    let _ = svc.destroy().await;
                } else {
                    sh.op("drop:service");
                    drop(svc);
                    let _ = h.sync_broker().await;
                }
                let t1 = hist.tick();
                for e in hist.svcs.borrow_mut().iter_mut().filter(|e| e.0 == id) {
                    e.2 = Some(t1);
                }
            }
            ActorStep::Sync => {
                sh.op("sync_broker");
                let _ = h.sync_broker().await;
            }
        }
    }
}

type Ev = (usize, bool, ObjectId);

struct ObsResult {
    cfg: ObsCfg,
    disc: Discoverer<usize>,
    /// events since the last (re)start
    events: Vec<Ev>,
    current_only: bool,
}

fn builder<'a>(h: &'a Handle, cfg: &ObsCfg) -> aldrin::discoverer::DiscovererBuilder<'a, usize> {
    let mut b = Discoverer::builder(h);
    for (k, e) in cfg.entries.iter().enumerate() {
        b = b.add(k, e.object.map(ou), e.services.iter().map(|s| su(*s)));
    }
    b
}

async fn observer(sh: Sh, h: Handle, cfg: ObsCfg, outv: Rc<RefCell<Vec<ObsResult>>>) {
    sh.op(&format!("discoverer.build{}", cfg.build));
    let b = builder(&h, &cfg);
    let r = match cfg.build {
        0 => b.build().await,
        1 => b.build_current_only().await,
        _ => b.build_current_only_and_wait().await,
    };
    let mut disc = match r {
        Ok(d) => d,
        Err(e) => return sh.fail("discoverer.build", format!("{:?}", e)),
    };
    let mut current_only = cfg.build != 0;
    let mut events: Vec<Ev> = Vec::new();
    for st in cfg.steps.clone() {
        match st {
            ObsStep::Read(n) => {
                for _ in 0..n {
                    sh.op("discoverer.next_event(poll)");
                    match cancel_after(disc.next_event(), 2).await {
                        Some(Some(ev)) => events.push((ev.key(), ev.kind() == DiscovererEventKind::Created, ev.object_id())),
                        _ => break,
                    }
                }
            }
            ObsStep::Restart => {
                sh.op("discoverer.restart");
                if let Err(e) = disc.restart().await {
                    return sh.fail("discoverer.restart", format!("{:?}", e));
                }
                events.clear();
                current_only = false;
            }
            ObsStep::RestartCurrentOnly => {
                sh.op("discoverer.restart_current_only");
                if let Err(e) = disc.restart_current_only().await {
                    return sh.fail("discoverer.restart_current_only", format!("{:?}", e));
                }
                events.clear();
                current_only = true;
            }
            ObsStep::Yield(n) => {
                for _ in 0..n {
                    crate::bus::dx::YieldNow(false).await;
                }
            }
        }
    }
    outv.borrow_mut().push(ObsResult { cfg, disc, events, current_only });
}

fn matching(truth_objs: &BTreeMap<ObjectUuid, ObjectId>, truth_svcs: &BTreeMap<(ObjectUuid, ServiceUuid), ServiceId>, e: &EntryCfg) -> BTreeMap<ObjectId, Vec<ServiceId>> {
    let mut m = BTreeMap::new();
    for (u, id) in truth_objs {
        if let Some(o) = e.object {
            if ou(o) != *u {
                continue;
            }
        }
        let mut sids = Vec::new();
        let mut ok = true;
        for s in &e.services {
            match truth_svcs.get(&(*u, su(*s))) {
                Some(sid) if sid.object_id == *id => sids.push(*sid),
                _ => ok = false,
            }
        }
        if ok {
            m.insert(*id, sids);
        }
    }
    m
}

fn run(prog: &Prog, sched: u64, out: &mut Outcome) -> (Vec<(String, String)>, u64, u64, Option<String>, Vec<String>) {
    let mut rng = Rng::new(sched);
    let mut w = World::new();
    w.dx.spurious = (1, 50);
    let mut fails: Vec<(String, String)> = Vec::new();
    for (caps, minor) in &prog.clients {
        if let Err(e) = w.add_client(*caps, *minor, &mut rng) {
            fails.push(("connect".into(), e));
            return (fails, 0, 0, None, vec![]);
        }
    }
    let hist = Rc::new(History::default());
    let held = Rc::new(RefCell::new(Held { objs: BTreeMap::new(), svcs: BTreeMap::new() }));
    let lifetimes: Rc<RefCell<Vec<(LifetimeId, Rc<Cell<bool>>)>>> = Rc::new(RefCell::new(Vec::new()));
    let obs_out: Rc<RefCell<Vec<ObsResult>>> = Rc::new(RefCell::new(Vec::new()));
    for (i, (c, steps)) in prog.actors.iter().enumerate() {
        let f = actor(w.sh.clone(), w.handle(*c), steps.clone(), hist.clone(), held.clone(), lifetimes.clone());
        w.sh.spawn_app(&format!("actor{}@{}", i, c), false, *c, f);
    }
    for (i, (c, cfg)) in prog.observers.iter().enumerate() {
        let f = observer(w.sh.clone(), w.handle(*c), cfg.clone(), obs_out.clone());
        w.sh.spawn_app(&format!("observer{}@{}", i, c), false, *c, f);
    }
    // find / wait queries while the bus is busy
    let find_results: Rc<RefCell<Vec<(EntryCfg, u64, u64, Option<(ObjectId, Vec<ServiceId>)>)>>> = Rc::new(RefCell::new(Vec::new()));
    for (i, (c, e, _wait)) in prog.finds.iter().enumerate() {
        let (sh, h, e, hist2, fr) = (w.sh.clone(), w.handle(*c), e.clone(), hist.clone(), find_results.clone());
        w.sh.spawn_app(&format!("find{}@{}", i, c), false, *c, async move {
            for _ in 0..(i + 1) {
                crate::bus::dx::YieldNow(false).await;
            }
            sh.op("find_object");
            let t0 = hist2.tick();
            let r = h.find_object(e.object.map(ou), e.services.iter().map(|s| su(*s))).await;
            let t1 = hist2.tick();
            match r {
                Ok(x) => fr.borrow_mut().push((e, t0, t1, x)),
                Err(err) => sh.fail("find_object", format!("{:?}", err)),
            }
        });
    }
    // lifetimes bound by an observer client while things happen
    let lt_out: Rc<RefCell<Vec<(LifetimeId, Lifetime, Rc<Cell<bool>>)>>> = Rc::new(RefCell::new(Vec::new()));
    {
        let (sh, h, lts, lo) = (w.sh.clone(), w.handle(0), lifetimes.clone(), lt_out.clone());
        w.sh.spawn_app("lifetimes@0", false, 0, async move {
            let mut bound = 0usize;
            for round in 0..6 {
                for _ in 0..(2 + round) {
                    crate::bus::dx::YieldNow(false).await;
                }
                let todo: Vec<(LifetimeId, Rc<Cell<bool>>)> = lts.borrow().iter().skip(bound).cloned().collect();
                for (id, ended) in todo {
                    bound += 1;
                    sh.op("create_lifetime");
                    match h.create_lifetime(id).await {
                        Ok(lt) => lo.borrow_mut().push((id, lt, ended)),
                        Err(e) => sh.fail("create_lifetime", format!("{:?}", e)),
                    }
                }
            }
        });
    }
    let end1 = w.run(&mut rng, 600_000);
    let mut inconclusive = None;
    if end1 == RunEnd::Budget {
        inconclusive = Some("poll budget used up".to_string());
    } else {
        let stuck = w.unfinished(false);
        if !stuck.is_empty() {
            fails.push(("stuck".into(), format!("executor is quiescent but tasks are still waiting: {:?}", stuck)));
        }
    }
    // ground truth: what the actors hold now
    let mut truth_objs: BTreeMap<ObjectUuid, ObjectId> = BTreeMap::new();
    let mut truth_svcs: BTreeMap<(ObjectUuid, ServiceUuid), ServiceId> = BTreeMap::new();
    for o in held.borrow().objs.values() {
        truth_objs.insert(o.id().uuid, o.id());
    }
    for s in held.borrow().svcs.values() {
        truth_svcs.insert((s.id().object_id.uuid, s.id().uuid), s.id());
    }
    // final phase: the bus is quiet; drain and compare
    if fails.is_empty() && inconclusive.is_none() {
        let results: Vec<ObsResult> = obs_out.borrow_mut().drain(..).collect();
        let verdicts: Rc<RefCell<Vec<(String, String)>>> = Rc::new(RefCell::new(Vec::new()));
        for (i, mut res) in results.into_iter().enumerate() {
            let (sh, v, to, ts) = (w.sh.clone(), verdicts.clone(), truth_objs.clone(), truth_svcs.clone());
            let c = prog.observers[i].0;
            w.sh.spawn_app(&format!("final-observer{}@{}", i, c), false, c, async move {
                if res.current_only {
                    // a snapshot discoverer is refreshed now that nothing changes any more
                    sh.op("discoverer.restart_current_only_and_wait");
                    if let Err(e) = res.disc.restart_current_only_and_wait().await {
                        return sh.fail("restart_current_only_and_wait", format!("{:?}", e));
                    }
                    res.events.clear();
                    if !res.disc.is_finished() && !res.cfg.entries.is_empty() {
                        v.borrow_mut().push(("discoverer-not-finished".into(), "restart_current_only_and_wait returned but is_finished is false".into()));
                    }
                } else {
                    loop {
                        sh.op("discoverer.next_event(drain)");
                        match cancel_after(res.disc.next_event(), 3).await {
                            Some(Some(ev)) => res.events.push((ev.key(), ev.kind() == DiscovererEventKind::Created, ev.object_id())),
                            _ => break,
                        }
                    }
                }
                for (k, e) in res.cfg.entries.iter().enumerate() {
                    let want = matching(&to, &ts, e);
                    // iter
                    let mut got: BTreeMap<ObjectId, Vec<ServiceId>> = BTreeMap::new();
                    for it in res.disc.entry_iter(k) {
                        got.insert(it.object_id(), e.services.iter().map(|s| it.service_id(su(*s))).collect());
                    }
                    if got != want {
                        v.borrow_mut().push((
                            "discoverer-database".into(),
                            format!("entry {:?}: discoverer reports {:?}, the bus holds {:?} (events since start: {:?})", e, got, want, res.events),
                        ));
                    }
                    // point queries agree with iter
                    for (oid, sids) in &want {
                        if res.disc.object_id(k, oid.uuid) != Some(*oid) {
                            v.borrow_mut().push(("discoverer-object-id".into(), format!("entry {:?}: object_id({:?}) = {:?}", e, oid.uuid, res.disc.object_id(k, oid.uuid))));
                        }
                        for (si, s) in e.services.iter().enumerate() {
                            if res.disc.service_id(k, oid.uuid, su(*s)) != Some(sids[si]) {
                                v.borrow_mut().push(("discoverer-service-id".into(), format!("entry {:?}: service_id differs for {:?}", e, oid.uuid)));
                            }
                        }
                    }
                    // event stream: alternates per object, ends in the truth
                    if !res.current_only {
                        let mut state: BTreeMap<ObjectUuid, (bool, ObjectId)> = BTreeMap::new();
                        for (ek, created, oid) in res.events.iter().filter(|(ek, _, _)| *ek == k) {
                            let _ = ek;
                            let cur = state.get(&oid.uuid).map(|x| x.0).unwrap_or(false);
                            if cur == *created {
                                v.borrow_mut().push(("discoverer-event-order".into(), format!("entry {:?}: two {} events in a row for {:?}: {:?}", e, if *created { "created" } else { "destroyed" }, oid.uuid, res.events)));
                                break;
                            }
                            state.insert(oid.uuid, (*created, *oid));
                        }
                        let present: BTreeSet<ObjectId> = state.values().filter(|x| x.0).map(|x| x.1).collect();
                        let want_set: BTreeSet<ObjectId> = want.keys().copied().collect();
                        if present != want_set {
                            v.borrow_mut().push(("discoverer-event-end-state".into(), format!("entry {:?}: events end with {:?} present, the bus holds {:?}; events {:?}", e, present, want_set, res.events)));
                        }
                    }
                }
            });
        }
        // lifetimes
        let lts: Vec<(LifetimeId, Lifetime, Rc<Cell<bool>>)> = lt_out.borrow_mut().drain(..).collect();
        {
            let (sh, v) = (w.sh.clone(), verdicts.clone());
            w.sh.spawn_app("final-lifetimes@0", false, 0, async move {
                for (id, mut lt, ended) in lts {
                    sh.op("lifetime.ended(poll)");
                    let resolved = cancel_after(lt.ended(), 3).await.is_some();
                    if resolved != ended.get() {
                        v.borrow_mut().push((
                            if resolved { "lifetime-ended-while-alive".into() } else { "lifetime-not-ended".into() },
                            format!("lifetime of {:?}: resolved={}, scope ended={}", id.0, resolved, ended.get()),
                        ));
                    }
                    if resolved != lt.has_ended() {
                        v.borrow_mut().push(("lifetime-has-ended".into(), format!("has_ended()={} after ended() resolved={}", lt.has_ended(), resolved)));
                    }
                }
            });
        }
        let end2 = w.run(&mut rng, 400_000);
        if end2 == RunEnd::Budget {
            inconclusive = Some("poll budget used up in the final phase".into());
        } else {
            let stuck = w.unfinished(false);
            if !stuck.is_empty() {
                fails.push(("stuck-final".into(), format!("final checks still waiting: {:?}", stuck)));
            }
        }
        fails.extend(verdicts.borrow().iter().cloned());
        // find results: something that possibly existed during the call
        for (e, t0, t1, r) in find_results.borrow().iter() {
            if let Some((oid, sids)) = r {
                let alive = |start: u64, end: Option<u64>| start <= *t1 && end.map(|x| x >= *t0).unwrap_or(true);
                let ok_o = hist.objs.borrow().iter().any(|(id, s, en)| id == oid && alive(*s, *en));
                let ok_s = sids.iter().all(|sid| hist.svcs.borrow().iter().any(|(id, s, en)| id == sid && alive(*s, *en)));
                let shape = e.object.map(|o| ou(o) == oid.uuid).unwrap_or(true) && sids.len() == e.services.len();
                if !(ok_o && ok_s && shape) {
                    fails.push(("find-object".into(), format!("find_object for {:?} returned {:?}/{:?}, which did not exist during the call", e, oid, sids)));
                }
            }
        }
    }
    for (task, p) in w.dx.panics.clone() {
        fails.push((format!("panic:{}:{}", task.trim_end_matches(char::is_numeric), crate::guard::panic_site(&p)), format!("task {} panicked: {}", task, p)));
    }
    fails.extend(w.sh.0.fails.borrow().iter().cloned());
    for (k, v) in w.sh.0.ops.borrow().iter() {
        out.count(&format!("api:{}", k), *v);
    }
    out.count("objects_alive_at_end", truth_objs.len() as u64);
    out.count("services_alive_at_end", truth_svcs.len() as u64);
    let log = w.sh.0.log.borrow().clone();
    let (trace, polls) = (w.dx.trace, w.dx.polls);
    // keep what the actors hold alive until here
    drop(held);
    for c in 0..w.clients.len() {
        if let Some(h) = w.clients[c].handle.take() {
            h.shutdown();
        }
    }
    w.run(&mut rng, 200_000);
    w.dx.shutdown();
    (fails, trace, polls, inconclusive, log)
}

impl Check for C19 {
    fn id(&self) -> &'static str {
        "C19"
    }
    fn level(&self) -> &'static str {
        "exploration"
    }
    fn rule(&self) -> &'static str {
        "one case = one (program, schedule): 2-3 real clients; per client an actor creating/destroying/dropping objects (3 UUIDs, re-created under new cookies) and services (2 UUIDs) from the pool; 1-3 discoverers with 1-3 entries each (specific object with/without services, any object with services), built in the three ways, read at random points with cancelled polls, restarted (all / current only); lifetimes bound to every object while it may already be gone; find_object queries racing with the actors; random task schedule with spurious polls. At quiescence: discoverer database (iter, object_id, service_id) = ground truth per entry, event streams alternate and end in the truth, a lifetime has resolved iff its object is gone, find results existed during the call. distinct = hash of the schedule trace; non-trivial = at least 200 polls"
    }
    fn assumptions(&self) -> Vec<String> {
        vec![
            "ground truth = the Object/Service values the actors hold when the executor is quiescent (ids as returned by the public API)".into(),
            "snapshot (current-only) discoverers are compared after a final restart_current_only_and_wait on the quiet bus; tracking discoverers after draining their pending events".into(),
        ]
    }
    fn total_cases(&self, tier: Tier) -> u64 {
        match tier {
            Tier::Quick => 60000,
            Tier::Thorough => 3_000_000,
        }
    }
    fn run_case(&self, ctx: &Ctx, idx: u64, out: &mut Outcome) {
        let pidx = idx / 3;
        let mut prng = Rng::derive(ctx.seed, 0xC19, pidx);
        let prog = gen(&mut prng);
        let sched = Rng::derive(ctx.seed, 0xC19_5, idx).next_u64();
        let (fails, trace, polls, inconclusive, log) = run(&prog, sched, out);
        out.eval();
        if polls >= 200 {
            out.distinct_case(trace ^ fnv(&pidx.to_le_bytes()));
        }
        if idx % 1501 == 0 {
            out.sample(json!({"case": idx, "program": format!("{:?}", prog).chars().take(1500).collect::<String>(), "polls": polls}));
        }
        if let Some(w) = inconclusive {
            out.inconclusive(w);
        }
        let tail: Vec<String> = log.iter().rev().take(30).rev().cloned().collect();
        for (sig, detail) in fails.iter().take(4) {
            out.violation(sig.clone(), detail.clone(), json!({"case": idx, "seed": ctx.seed, "program": format!("{:?}", prog), "log_tail": tail}));
        }
    }
    fn gates(&self, _tier: Tier, merged: &Outcome) -> Vec<String> {
        let mut g = Vec::new();
        for op in ["api:discoverer.restart", "api:discoverer.restart_current_only", "api:discoverer.build0", "api:discoverer.build1", "api:discoverer.build2", "api:create_lifetime", "api:find_object", "api:drop:object"] {
            if merged.counters.get(op).copied().unwrap_or(0) == 0 {
                g.push(format!("operation {} was never exercised", op));
            }
        }
        g
    }
}
