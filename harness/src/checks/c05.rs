//! C05: channels. Broker level: generated channel histories against the bus model (end state
//! machine, both credits, conservation). Client level: producer and consumer on different real
//! clients using the real Sender/Receiver under random schedules: exactly-once in-order
//! delivery, the producer is never cut off while the consumer reads, both terminate.

use super::buschecks::C05B;
use super::c06::{gen_program_kind, run_program};
use super::Check;
use crate::prng::{fnv, Rng};
use crate::report::{Ctx, Outcome, Tier};
use serde_json::json;

pub struct C05;

impl Check for C05 {
    fn id(&self) -> &'static str {
        "C05"
    }
    fn level(&self) -> &'static str {
        "exploration"
    }
    fn rule(&self) -> &'static str {
        "even case = one generated channel history at the protocol level (create/claim/close/send-item/add-capacity/disconnect on both ends by 2-5 connections, capacities 0,1,3,4,5,16,2^32-2,2^32-1, senders within and beyond their announced credit, overflowing grants) compared with the bus model; odd case = one (program, schedule) of real clients whose application tasks only run channel steps (producer and consumer on different clients, capacities 1,2,4,5,16, up to 40 uniquely numbered items, consumer or producer stopping early, producer polling receiver_closed) under a seeded random schedule. distinct = hash of the event log resp. schedule trace"
    }
    fn assumptions(&self) -> Vec<String> {
        let mut a = C05B.assumptions();
        a.push("client level: items are numbered per channel; what arrives must be the exact prefix 0..n of what was sent, complete unless one side stopped early by script".into());
        a
    }
    fn total_cases(&self, tier: Tier) -> u64 {
        match tier {
            Tier::Quick => 60000,
            Tier::Thorough => 4_000_000,
        }
    }
    fn run_case(&self, ctx: &Ctx, idx: u64, out: &mut Outcome) {
        if idx % 2 == 0 {
            return C05B.run_case(ctx, idx / 2, out);
        }
        let pidx = idx / 8;
        let mut prng = Rng::derive(ctx.seed, 0xC05, pidx);
        let prog = gen_program_kind(&mut prng, false, true);
        let sched = Rng::derive(ctx.seed, 0xC05_5, idx).next_u64();
        let rep = run_program(&prog, sched, out);
        out.eval();
        out.count("client_level_runs", 1);
        if rep.polls >= 200 {
            out.distinct_case(rep.trace ^ fnv(&pidx.to_le_bytes()));
        }
        if let Some(w) = &rep.inconclusive {
            out.inconclusive(w.clone());
        }
        let tail: Vec<String> = rep.log.iter().rev().take(40).rev().cloned().collect();
        for (sig, detail) in &rep.fails {
            out.violation(format!("client:{}", sig), detail.clone(), json!({"case": idx, "seed": ctx.seed, "program": format!("{:?}", prog), "log_tail": tail}));
        }
    }
    fn gates(&self, tier: Tier, merged: &Outcome) -> Vec<String> {
        let mut g = C05B.gates(tier, merged);
        for op in ["api:send_item", "api:next_item", "api:receiver.claim", "api:sender.claim", "api:receiver_closed(poll)"] {
            if merged.counters.get(op).copied().unwrap_or(0) == 0 {
                g.push(format!("operation {} was never exercised", op));
            }
        }
        g
    }
}
