//! C17 (schema front end is total) and C18 (formatter preserves and is idempotent).

use super::Check;
use crate::codec::mutate;
use crate::guard::{guarded, panic_site};
use crate::prng::{fnv, Rng};
use crate::report::{Ctx, Outcome, Tier};
use crate::schema::gen::{GenCfg, Layout, SchemaGen};
use crate::schema::proj::project;
use aldrin_codegen::{Generator, Options, RustOptions};
use aldrin_parser::{Diagnostic, Formatter, MemoryResolver, Parser, Renderer};
use serde_json::json;
use std::sync::OnceLock;

// ---------------------------------------------------------------------------------------------
// shared helpers
// ---------------------------------------------------------------------------------------------

fn repo_schemas() -> &'static Vec<(String, String)> {
    static S: OnceLock<Vec<(String, String)>> = OnceLock::new();
    S.get_or_init(|| {
        let mut v = Vec::new();
        fn walk(dir: &std::path::Path, v: &mut Vec<(String, String)>, depth: usize) {
            if depth > 8 {
                return;
            }
            let Ok(rd) = std::fs::read_dir(dir) else { return };
            for e in rd.flatten() {
                let p = e.path();
                let name = p.file_name().and_then(|s| s.to_str()).unwrap_or("").to_string();
                if p.is_dir() {
                    if name != "target" && name != ".git" {
                        walk(&p, v, depth + 1);
                    }
                } else if name.ends_with(".aldrin") {
                    if let Ok(s) = std::fs::read_to_string(&p) {
                        v.push((p.display().to_string(), s));
                    }
                }
            }
        }
        walk(std::path::Path::new(&crate::repo_root()), &mut v, 0);
        v.sort();
        v
    })
}

fn parse(main: &str, src: &str, others: &[(String, Result<String, String>)]) -> Parser {
    let mut r = MemoryResolver::new(main.to_string(), Ok(src.to_string()));
    for (n, s) in others {
        match s {
            Ok(s) => {
                r.add(n.clone(), Ok(s.clone()));
            }
            Err(e) => {
                r.add(n.clone(), Err(std::io::Error::other(e.clone())));
            }
        }
    }
    Parser::parse(r)
}

/// Title line (kind + message, no positions) of every issue, sorted.
fn issue_titles(p: &Parser) -> Vec<String> {
    let r = Renderer::new(false, false, 100);
    let mut v: Vec<String> = Vec::new();
    for e in p.errors() {
        v.push(r.render(e, p).lines().next().unwrap_or("").to_string());
    }
    for w in p.warnings() {
        v.push(r.render(w, p).lines().next().unwrap_or("").to_string());
    }
    for w in p.other_warnings() {
        v.push(r.render(w, p).lines().next().unwrap_or("").to_string());
    }
    v.sort();
    v
}

fn has_syntax_error(p: &Parser) -> bool {
    let r = Renderer::new(false, false, 100);
    p.errors().iter().any(|e| {
        let t = r.render(e, p);
        let first = t.lines().next().unwrap_or("");
        first.contains("invalid syntax") || first.contains("expected ")
    })
}

fn gen_schema_text(rng: &mut Rng, valid: bool, wild: u32) -> (String, Vec<(String, Result<String, String>)>) {
    let cfg = GenCfg { valid, hostile_docs: true, max_defs: 5, comments: true, attrs: true, plain_types_only: false };
    // an importable schema
    let mut others = Vec::new();
    let mut importable: Vec<(String, Vec<String>)> = Vec::new();
    let mut reuse: Vec<String> = Vec::new();
    if rng.chance(1, 2) {
        let mut g = SchemaGen::new(rng, GenCfg { valid: true, hostile_docs: true, max_defs: 4, comments: false, attrs: false, plain_types_only: false });
        let other = g.schema("other_schema", &[]);
        let types: Vec<String> = other
            .defs
            .iter()
            .filter(|d| matches!(d, crate::schema::gen::ADef::Struct(_) | crate::schema::gen::ADef::Enum(_) | crate::schema::gen::ADef::Newtype { .. }))
            .map(|d| d.name().to_string())
            .collect();
        drop(g);
        let text = Layout { r: rng, wild: 0 }.render(&other);
        importable.push(("other_schema".to_string(), types));
        others.push(("other_schema".to_string(), Ok(text)));
        for d in &other.defs {
            if let crate::schema::gen::ADef::Service(sv) = d {
                reuse.push(sv.uuid.clone());
            }
        }
    }
    let mut g = SchemaGen::new(rng, cfg);
    g.reuse_uuids = reuse;
    let s = g.schema("main_schema", &importable);
    drop(g);
    let text = Layout { r: rng, wild }.render(&s);
    (text, others)
}

// ---------------------------------------------------------------------------------------------
// C18
// ---------------------------------------------------------------------------------------------

pub struct C18;

fn check_fmt(name: &str, src: &str, others: &[(String, Result<String, String>)], out: &mut Outcome, replay: serde_json::Value, from_generator: bool) {
    // a parser that panics on the input is C17's business, not the formatter's
    let p1 = match guarded(|| parse(name, src, others)) {
        Ok(p) => p,
        Err(_) => {
            out.eval();
            out.count("inputs_on_which_the_parser_panicked", 1);
            return;
        }
    };
    let r = guarded(|| {
        let mut problems: Vec<(String, String)> = Vec::new();
        if has_syntax_error(&p1) {
            if from_generator {
                problems.push(("generator-invalid-syntax".into(), format!("{:?}", issue_titles(&p1))));
            }
            return (problems, false);
        }
        let f1 = match Formatter::new(&p1) {
            Ok(f) => f.to_string(),
            Err(errs) => {
                problems.push(("formatter-refuses".into(), format!("Formatter::new refused a schema without syntax errors: {} errors", errs.len())));
                return (problems, true);
            }
        };
        let p2 = parse(name, &f1, others);
        if has_syntax_error(&p2) {
            problems.push(("formatted-does-not-parse".into(), format!("formatted text has syntax errors: {:?}", issue_titles(&p2).iter().take(3).collect::<Vec<_>>())));
            return (problems, true);
        }
        let (a, b) = (project(p1.main_schema()), project(p2.main_schema()));
        if a != b {
            // first differing line
            let diff = a.lines().zip(b.lines()).find(|(x, y)| x != y).map(|(x, y)| format!("before: {} | after: {}", x, y)).unwrap_or_else(|| format!("length {} vs {}", a.lines().count(), b.lines().count()));
            problems.push(("schema-changed".into(), format!("the formatted schema differs from the original: {}", diff)));
        }
        let (ia, ib) = (issue_titles(&p1), issue_titles(&p2));
        if ia != ib {
            problems.push(("diagnostics-changed".into(), format!("issues before {:?} after {:?}", ia, ib)));
        }
        match Formatter::new(&p2) {
            Ok(f) => {
                let f2 = f.to_string();
                if f2 != f1 {
                    let diff = f1.lines().zip(f2.lines()).find(|(x, y)| x != y).map(|(x, y)| format!("{:?} -> {:?}", x, y)).unwrap_or_else(|| "line count".into());
                    problems.push(("not-idempotent".into(), format!("formatting the formatted text changes it: {}", diff)));
                }
            }
            Err(_) => problems.push(("formatter-refuses-own-output".into(), "Formatter::new refused formatted text".into())),
        }
        (problems, true)
    });
    out.eval();
    match r {
        Ok((problems, counted)) => {
            if counted {
                out.count("schemas_formatted", 1);
            }
            for (sig, detail) in problems {
                if sig == "generator-invalid-syntax" {
                    out.count("generator_invalid_syntax", 1);
                    out.inconclusive(format!("the harness generator produced text with syntax errors: {}", detail));
                } else {
                    out.violation(sig, detail, replay.clone());
                }
            }
        }
        Err(p) => out.violation(format!("panic:{}", panic_site(&p)), format!("formatting panicked: {}", p), replay),
    }
}

impl Check for C18 {
    fn id(&self) -> &'static str {
        "C18"
    }
    fn level(&self) -> &'static str {
        "exploration"
    }
    fn rule(&self) -> &'static str {
        "one case = one schema text from the grammar-directed generator (structs, enums, services with inline types and fallbacks, consts, newtypes, imports; semantically valid or not) laid out with arbitrary legal whitespace, CR/LF mixes, blank lines, comments, doc strings and attributes in every position the grammar admits (layout wildness 0-2); plus every *.aldrin file of the repository. Oracle: the formatted text parses without syntax error, the AST projection through the public accessors (definitions in order; names, ids, types, attributes, comment and doc lines; imports as a sorted set) is unchanged, the multiset of issue titles is unchanged, formatting again is the identity. distinct = hash of the source text"
    }
    fn assumptions(&self) -> Vec<String> {
        vec!["'same set of errors and warnings, positions aside' is compared through the title line of each rendered diagnostic".into()]
    }
    fn total_cases(&self, tier: Tier) -> u64 {
        match tier {
            Tier::Quick => 30000,
            Tier::Thorough => 3_000_000,
        }
    }
    fn once(&self, ctx: &Ctx, out: &mut Outcome) {
        for (path, src) in repo_schemas() {
            out.count("repository_schemas", 1);
            let name = std::path::Path::new(path).file_stem().and_then(|s| s.to_str()).unwrap_or("schema").to_string();
            // sibling schemas as importable
            let others: Vec<(String, Result<String, String>)> = repo_schemas()
                .iter()
                .filter(|(p, _)| p != path)
                .map(|(p, s)| (std::path::Path::new(p).file_stem().and_then(|x| x.to_str()).unwrap_or("x").to_string(), Ok(s.clone())))
                .collect();
            check_fmt(&name, src, &others, out, json!({"file": path, "seed": ctx.seed}), false);
        }
    }
    fn run_case(&self, ctx: &Ctx, idx: u64, out: &mut Outcome) {
        let mut rng = Rng::derive(ctx.seed, 0xC18, idx);
        let valid = rng.chance(2, 3);
        let wild = (idx % 3) as u32;
        let (text, others) = gen_schema_text(&mut rng, valid, wild);
        out.distinct_case(fnv(text.as_bytes()));
        if idx % 1500 == 0 {
            out.sample(json!({"case": idx, "source": text.chars().take(900).collect::<String>()}));
        }
        check_fmt("main_schema", &text, &others, out, json!({"case": idx, "seed": ctx.seed, "source": text}), true);
    }
    fn gates(&self, _tier: Tier, merged: &Outcome) -> Vec<String> {
        let mut g = Vec::new();
        let total = merged.evaluations.max(1);
        let formatted = merged.counters.get("schemas_formatted").copied().unwrap_or(0);
        if formatted * 10 < total * 9 {
            g.push(format!("only {} of {} generated schemas reached the formatter", formatted, total));
        }
        if merged.counters.get("repository_schemas").copied().unwrap_or(0) == 0 {
            g.push("no repository schema was found".into());
        }
        g
    }
}

// ---------------------------------------------------------------------------------------------
// C17
// ---------------------------------------------------------------------------------------------

pub struct C17;

const TOKENS: [&str; 70] = [
    "import", "struct", "enum", "service", "fn", "event", "const", "newtype", "u8", "i8", "u16", "i16", "u32", "i32", "u64", "i64", "string", "uuid", "object_id", "service_id", "bool", "f32", "f64", "value", "box", "vec",
    "bytes", "map", "set", "required", "option", "version", "args", "ok", "err", "sender", "receiver", "lifetime", "unit", "result", "fallback", ";", "=", "(", ")", "<", ">", "->", "::", "#", "[", "]", ",", "{", "}", "@", "!",
    "Foo", "bar_baz", "_", "__", "0", "1", "-1", "4294967296", "99999999999999999999999", "e0af57f3-5537-48c6-b04d-e9011803609c", "\"str\"", "\"\\é\"", "x1",
];

/// A family of schemas whose newtypes (optionally through local hops) refer to each other in a
/// cycle of length 1..4 across schema boundaries (including a schema that imports itself), with
/// the cycle used as a map key, set element, array element, field, variant or function argument.
fn reference_cycle(r: &mut Rng) -> (String, Vec<(String, Result<String, String>)>) {
    let n = 1 + r.below(4);
    let names: Vec<String> = (0..n).map(|i| if i == 0 { "main_schema".to_string() } else { format!("cyc{}", i) }).collect();
    let mut texts: Vec<String> = Vec::new();
    for i in 0..n {
        let next = (i + 1) % n;
        let mut t = String::new();
        // imports: the next schema of the ring (itself for n = 1), sometimes everything
        if r.chance(1, 4) {
            for nm in &names {
                t.push_str(&format!("import {};\n", nm));
            }
        } else {
            t.push_str(&format!("import {};\n", names[next]));
        }
        let local_hops = r.below(3);
        // T0 -> T1 -> ... -> T{local_hops} -> next::T0
        for h in 0..=local_hops {
            let target = if h == local_hops { format!("{}::T0", names[next]) } else { format!("T{}", h + 1) };
            let target = match r.below(8) {
                0 => format!("box<{}>", target),
                1 => format!("option<{}>", target),
                _ => target,
            };
            t.push_str(&format!("newtype T{} = {};\n", h, target));
        }
        if i == 0 || r.chance(1, 3) {
            let user = match r.below(8) {
                0 => "struct User { k @ 1 = set<T0>; }".to_string(),
                1 => "struct User { k @ 1 = map<T0 -> u8>; }".to_string(),
                2 => "struct User { required k @ 1 = T0; }".to_string(),
                3 => "enum User { K @ 1 = [T0; 2]; }".to_string(),
                4 => format!("struct User {{ k @ 1 = map<{}::T0 -> vec<T0>>; }}", names[next]),
                5 => "service User { uuid = 6b3c9d2e-1f5a-4c7b-8e9d-0a1b2c3d4e5f; version = 1; fn f @ 1 { args = set<T0>; ok = T0; } event e @ 1 = map<T0 -> T0>; }".to_string(),
                6 => "newtype User = result<set<T0>, map<T0 -> T0>>;".to_string(),
                _ => "struct User { k @ 1 = set<T0>; l @ 2 = vec<T0>; }".to_string(),
            };
            t.push_str(&user);
            t.push('\n');
        }
        texts.push(t);
    }
    let main = texts.remove(0);
    let others = names.into_iter().skip(1).zip(texts).map(|(n, t)| (n, Ok(t))).collect();
    (main, others)
}

fn soup(r: &mut Rng) -> String {
    let mut s = String::new();
    let n = r.below(60);
    for _ in 0..n {
        match r.below(14) {
            0 => s.push_str("// comment [link]\n"),
            1 => s.push_str("/// doc `x` [Foo] é\n"),
            2 => s.push_str("//! inline\r\n"),
            3 => s.push('\n'),
            4 => s.push_str("#[a(b)]"),
            _ => {
                let t: &&str = r.pick::<&str>(&TOKENS[..]);
                s.push_str(t)
            }
        }
        match r.below(5) {
            0 => {}
            1 => s.push('\n'),
            _ => s.push(' '),
        }
    }
    s
}

/// Everything the front end does with one source text; returns the diagnostics (rendered) so
/// that two runs can be compared.
fn front_end(name: &str, src: &str, others: &[(String, Result<String, String>)], obs: &mut Vec<(&'static str, u64)>) -> Vec<String> {
    let p = parse(name, src, others);
    let mut rendered: Vec<String> = Vec::new();
    let styles = [(false, 80usize), (true, 20), (true, 200), (false, 40)];
    for (unicode, width) in styles {
        let r = Renderer::new(false, unicode, width);
        for e in p.errors() {
            let t = r.render(e, &p);
            if !unicode && width == 80 {
                rendered.push(t);
            }
            let _ = e.kind();
            let _ = e.schema_name();
        }
        for w in p.warnings().iter().chain(p.other_warnings().iter()) {
            let t = r.render(w, &p);
            if !unicode && width == 80 {
                rendered.push(t);
            }
        }
    }
    obs.push(("issues_rendered", rendered.len() as u64));
    if let Ok(f) = Formatter::new(&p) {
        let text = f.to_string();
        obs.push(("formatted", 1));
        rendered.push(format!("fmt:{}", fnv(text.as_bytes())));
    }
    if p.errors().is_empty() {
        for (client, server, intro) in [(true, true, true), (true, false, false)] {
            let mut o = Options::new();
            o.client = client;
            o.server = server;
            o.introspection = intro;
            let g = Generator::new(&o, &p);
            match g.rust(&RustOptions::new()) {
                Ok(outp) => {
                    obs.push(("code_generated", 1));
                    rendered.push(format!("gen:{}", fnv(outp.module_content.as_bytes())));
                }
                Err(e) => rendered.push(format!("gen-error:{}", e)),
            }
        }
    }
    rendered.sort();
    rendered
}

impl Check for C17 {
    fn id(&self) -> &'static str {
        "C17"
    }
    fn level(&self) -> &'static str {
        "exploration"
    }
    fn rule(&self) -> &'static str {
        "one case = one source text: (a) a token soup over the grammar's alphabet (keywords, punctuation, identifiers incl. `_`, integers beyond 64 bit, uuids, strings with escapes, comments, docs), (b) a byte/line mutation of one of the repository's *.aldrin files, (c) a generated schema (valid or not) with adversarial doc comments (markdown links, CR/LF mixes, tabs, multi-byte characters), with resolvable, missing, failing or cyclic imports, (d) rings of 1-4 schemas whose newtypes refer to each other in a cycle across the schema boundaries, used as keys, elements, fields and arguments. Monitored twice each under a panic monitor, in child processes that attribute aborts: Parser::parse, Renderer::render of every issue (plain and unicode, widths 20/40/80/200), Formatter when it accepts, Generator::rust (with and without introspection) when there are no errors; the two runs must produce the same diagnostics as multisets. distinct = hash of the source text"
    }
    fn assumptions(&self) -> Vec<String> {
        vec!["nesting depth of generated and mutated type expressions stays below a few hundred; unbounded nesting is a recorded known finding with its own probe".into()]
    }
    fn total_cases(&self, tier: Tier) -> u64 {
        match tier {
            Tier::Quick => 40000,
            Tier::Thorough => 4_000_000,
        }
    }
    fn once(&self, ctx: &Ctx, out: &mut Outcome) {
        // deep nesting runs in a process of its own: a stack overflow cannot be caught
        if let Some(d) = ctx.mode.strip_prefix("nestprobe:") {
            let depth: usize = d.parse().unwrap_or(10);
            let mut src = String::from("newtype A = ");
            for _ in 0..depth {
                src.push_str("option<");
            }
            src.push_str("u8");
            for _ in 0..depth {
                src.push('>');
            }
            src.push(';');
            let mut obs = Vec::new();
            let r = guarded(|| front_end("probe", &src, &[], &mut obs));
            std::process::exit(if r.is_ok() { 0 } else { 3 });
        }
        for depth in [50usize, 200, 400, 3000, 20000] {
            let exe = std::env::current_exe().expect("exe");
            let dir = std::env::temp_dir().join(format!("vcheck-nest-{}-{}", std::process::id(), depth));
            let _ = std::fs::create_dir_all(&dir);
            let st = std::process::Command::new(exe)
                .args(["C17", "--tier", "quick", "--mode", &format!("nestprobe:{}", depth), "--child", "0", "1"])
                .arg(&dir)
                .stdout(std::process::Stdio::null())
                .stderr(std::process::Stdio::null())
                .status();
            let _ = std::fs::remove_dir_all(&dir);
            out.eval();
            out.count("nesting_probes", 1);
            use std::os::unix::process::ExitStatusExt;
            match st {
                Ok(s) if s.success() => out.count(&format!("nesting_depth_{}_handled", depth), 1),
                Ok(s) if s.signal().is_some() => out.violation(
                    if depth >= 1000 { "stack-exhaustion:type-nesting>=1000".to_string() } else { format!("stack-exhaustion:type-nesting={}", depth) },
                    format!("`newtype A = option<option<...u8>>` nested {} deep kills the process with signal {:?} (stack exhaustion in the recursive-descent front end)", depth, s.signal()),
                    json!({"nesting_depth": depth, "seed": ctx.seed}),
                ),
                Ok(s) => out.violation("panic:nesting", format!("front end panicked on nesting depth {} (exit {:?})", depth, s.code()), json!({"nesting_depth": depth})),
                Err(e) => out.inconclusive(format!("nesting probe could not start: {}", e)),
            }
        }
        // fixed probes: identifiers made of underscores, in every position
        let probes = [
            "service Svc { uuid = e0af57f3-5537-48c6-b04d-e9011803609c; version = 1; fn _ @ 1 { args = struct {} } }",
            "service Svc { uuid = e0af57f3-5537-48c6-b04d-e9011803609c; version = 1; event __ @ 1 = enum { A @ 1; } }",
            "struct _ { _ @ 1 = u8; }",
            "enum __ { _ @ 1; }",
            "newtype _ = u8;",
            "const _ = u8(1);",
            "service _ { uuid = e0af57f3-5537-48c6-b04d-e9011803609c; version = 1; fn _ @ 1 = struct { _ @ 1 = u8; } }",
        ];
        for (i, src) in probes.iter().enumerate() {
            let mut obs = Vec::new();
            out.eval();
            out.count("fixed_probes", 1);
            if let Err(p) = guarded(|| front_end("probe", src, &[], &mut obs)) {
                out.violation(format!("panic:{}", panic_site(&p)), format!("front end panicked on {:?}: {}", src, p), json!({"probe": i, "source": src, "seed": ctx.seed}));
            }
        }
        // fixed probes: doc links of every form into imports that resolve, are missing, fail to
        // load, are not imported at all, and into the schema itself - on every kind of item
        let targets = ["ok_dep", "missing_dep", "failing_dep", "not_imported", "probe", "self"];
        let forms = ["[::{}::Foo]", "[`::{}::Foo::bar`]", "[text](::{})", "[::{}]", "[::{}::Svc::f]", "[::{}::Foo::]", "[x](::{}::Foo::bar::baz)", "[::{}::E::A]"];
        let others: Vec<(String, Result<String, String>)> = vec![
            ("ok_dep".to_string(), Ok("struct Foo { bar @ 1 = u8; }\nenum E { A @ 1; }\nservice Svc { uuid = e0af57f3-5537-48c6-b04d-e9011803609d; version = 1; fn f @ 1; }".to_string())),
            ("failing_dep".to_string(), Err("scripted resolver failure".to_string())),
        ];
        for t in targets {
            for form in forms {
                let link = form.replace("{}", t);
                let src = format!(
                    "import ok_dep;\nimport missing_dep;\nimport failing_dep;\n\n/// See {l}.\nstruct Foo {{\n    /// Field {l}\n    bar @ 1 = u8;\n}}\n\n/// {l}\nenum E {{\n    /// {l}\n    A @ 1;\n}}\n\n/// {l}\nservice Svc {{\n    uuid = e0af57f3-5537-48c6-b04d-e9011803609c;\n    version = 1;\n\n    /// {l}\n    fn f @ 1 {{\n        args = struct {{\n            /// {l}\n            x @ 1 = u8;\n        }}\n    }}\n\n    /// {l}\n    event e @ 1;\n}}\n\n/// {l}\nconst C = u8(1);\n\n/// {l}\nnewtype N = u8;\n",
                    l = link
                );
                let mut obs = Vec::new();
                out.eval();
                out.count("doc_link_probes", 1);
                match guarded(|| front_end("probe", &src, &others, &mut obs)) {
                    Err(p) => out.violation(format!("panic:{}", panic_site(&p)), format!("front end panicked on a doc link {:?}: {}", link, p), json!({"doc_link": link, "source": src, "seed": ctx.seed})),
                    Ok(first) => {
                        if std::env::var("VERIF_DEBUG_PROBE").is_ok() {
                            eprintln!("PROBE {} => {:#?}", link, first);
                        }
                        // a probe whose text does not even parse would test nothing
                        if first.iter().any(|d| d.contains("expected ")) {
                            out.count("doc_link_probes_with_syntax_error", 1);
                            out.inconclusive(format!("the doc-link probe for {:?} does not parse (harness error): {}", link, first.iter().find(|d| d.contains("expected ")).cloned().unwrap_or_default().chars().take(200).collect::<String>()));
                        }
                        // repeatability of the diagnostics
                        let mut obs2 = Vec::new();
                        if let Ok(mut second) = guarded(|| front_end("probe", &src, &others, &mut obs2)) {
                            let mut first = first;
                            first.sort();
                            second.sort();
                            if first != second {
                                out.violation("diagnostics-differ", format!("two runs over the same text with doc link {:?} report different diagnostics", link), json!({"doc_link": link, "source": src, "seed": ctx.seed}));
                            }
                        }
                    }
                }
            }
        }
    }
    fn run_case(&self, ctx: &Ctx, idx: u64, out: &mut Outcome) {
        let mut rng = Rng::derive(ctx.seed, 0xC17, idx);
        let mut others: Vec<(String, Result<String, String>)> = Vec::new();
        let (class, text) = match idx % 4 {
            // every 40th case: reference cycles across schema boundaries (every analysis that
            // follows references must terminate on them)
            0 if idx % 40 == 0 => {
                let (t, o) = reference_cycle(&mut rng);
                others = o;
                ("reference-cycle", t)
            }
            0 => ("soup", soup(&mut rng)),
            1 => {
                let files = repo_schemas();
                if files.is_empty() {
                    ("soup", soup(&mut rng))
                } else {
                    let (_, src) = rng.pick(files);
                    let mut b = src.clone().into_bytes();
                    let other = rng.pick(files).1.clone().into_bytes();
                    for _ in 0..(1 + rng.below(3)) {
                        mutate::mutate(&mut rng, &mut b, &other);
                    }
                    ("mutated-file", String::from_utf8_lossy(&b).into_owned())
                }
            }
            _ => {
                let valid = rng.bool();
                let (t, o) = gen_schema_text(&mut rng, valid, (idx % 3) as u32);
                others = o;
                ("generated", t)
            }
        };
        // imports: missing, failing, cyclic
        match rng.below(6) {
            0 => others.push(("broken_import".into(), Err("injected i/o error".into()))),
            1 => others.push(("cyc".into(), Ok("import main_schema; import cyc; struct C { a @ 1 = main_schema::Nope; }".into()))),
            _ => {}
        }
        let text = if rng.chance(1, 8) { format!("import cyc; import missing_one; import broken_import;\n{}", text) } else { text };
        out.eval();
        out.count(&format!("inputs[{}]", class), 1);
        out.distinct_case(fnv(text.as_bytes()));
        if idx % 2001 == 0 {
            out.sample(json!({"case": idx, "class": class, "source": text.chars().take(500).collect::<String>()}));
        }
        let replay = json!({"case": idx, "seed": ctx.seed, "class": class, "source": text});
        let mut obs1 = Vec::new();
        let mut obs2 = Vec::new();
        let r1 = guarded(|| front_end("main_schema", &text, &others, &mut obs1));
        let r2 = guarded(|| front_end("main_schema", &text, &others, &mut obs2));
        for (k, v) in obs1 {
            out.count(k, v);
        }
        match (r1, r2) {
            (Ok(a), Ok(b)) => {
                if a != b {
                    let d = a.iter().find(|x| !b.contains(x)).cloned().unwrap_or_default();
                    out.violation("diagnostics-not-repeatable", format!("two runs over the same text differ, e.g. {}", d.chars().take(300).collect::<String>()), replay);
                }
            }
            (Err(p), _) | (_, Err(p)) => {
                out.violation(format!("panic:{}", panic_site(&p)), format!("front end panicked: {}", p), replay);
            }
        }
    }
    fn gates(&self, _tier: Tier, merged: &Outcome) -> Vec<String> {
        let mut g = Vec::new();
        for k in ["issues_rendered", "formatted", "code_generated", "inputs[soup]", "inputs[mutated-file]", "inputs[generated]", "inputs[reference-cycle]"] {
            if merged.counters.get(k).copied().unwrap_or(0) == 0 {
                g.push(format!("{} never happened", k));
            }
        }
        g
    }
}
