//! Typed-decode lab (part of C07): arbitrary bytes decoded into *static* Rust types through the
//! `Deserialize<Tag>` impls of `core/src/impls/*` — fixed-size arrays built on `MaybeUninit`
//! (`[U; N]`, `[u8; N]`), std collections, tuples, `Option`, `Result` — instead of the dynamic
//! `Value`. Oracle:
//!   * acceptance: the typed decoder accepts exactly the inputs that the reference decoder reads
//!     completely and whose reference value conforms to the *shape* of the target type;
//!   * meaning: what it accepted re-serializes to the normal form of that reference value;
//!   * conservation of elements: every element value the decoder constructs (`Tracked`, a
//!     counting wrapper over `u32`) is dropped exactly once — checked through a live counter
//!     after every call, whether it succeeded, failed half-way through an array or panicked;
//!   * panic and peak-allocation monitors as for dynamic decoding.
//! The same workload runs under Miri and AddressSanitizer in the thorough tier, where a double
//! drop or a read of an uninitialised array slot is reported by the tool itself.

use crate::codec::mutate;
use crate::codec::real;
use crate::codec::rv::{self, Key, KeyKind, RV};
use crate::guard::{guarded, measured, panic_site};
use crate::prng::Rng;
use crate::report::{hex, hex_trunc, Ctx, Outcome};
use aldrin_core::tags::{self, Tag};
use aldrin_core::{
    Deserialize, DeserializeError, Deserializer, Serialize, SerializeError, SerializedValue,
    Serializer,
};
use serde_json::json;
use std::cell::Cell;
use std::collections::{BTreeMap, BTreeSet, HashMap, HashSet, LinkedList, VecDeque};

thread_local! {
    static LIVE: Cell<i64> = Cell::new(0);
    static MADE: Cell<u64> = Cell::new(0);
    static MIN_LIVE: Cell<i64> = Cell::new(0);
}

/// Element type with observable lifetime: constructed only by the decoder under test.
#[derive(Debug)]
pub struct Tracked(u32);

impl Tracked {
    fn new(v: u32) -> Self {
        LIVE.with(|l| l.set(l.get() + 1));
        MADE.with(|m| m.set(m.get() + 1));
        Tracked(v)
    }
}

impl Drop for Tracked {
    fn drop(&mut self) {
        LIVE.with(|l| {
            l.set(l.get() - 1);
            MIN_LIVE.with(|m| {
                if l.get() < m.get() {
                    m.set(l.get())
                }
            });
        });
    }
}

impl Deserialize<tags::U32> for Tracked {
    fn deserialize(d: Deserializer) -> Result<Self, DeserializeError> {
        d.deserialize_u32().map(Tracked::new)
    }
}

impl Serialize<tags::U32> for &Tracked {
    fn serialize(self, s: Serializer) -> Result<(), SerializeError> {
        s.serialize_u32(self.0)
    }
}

/// Shape of a target type in terms of reference values.
#[derive(Clone, Debug)]
pub enum Sh {
    U32,
    I64,
    U8,
    Str,
    Bytes,
    BytesN(usize),
    Opt(Box<Sh>),
    Vec(Box<Sh>),
    Arr(Box<Sh>, usize),
    Map(KeyKind, Box<Sh>),
    Set(KeyKind),
    Tup(Vec<Sh>),
    Res(Box<Sh>, Box<Sh>),
}

fn b(s: Sh) -> Box<Sh> {
    Box::new(s)
}

/// `v ⊨ sh`: the typed decoder for a type of shape `sh` has to accept `v`.
pub fn conforms(v: &RV, sh: &Sh) -> bool {
    match (sh, v) {
        (Sh::U32, RV::U32(_)) | (Sh::I64, RV::I64(_)) | (Sh::U8, RV::U8(_)) => true,
        (Sh::Str, RV::Str(s)) => std::str::from_utf8(s).is_ok(),
        (Sh::Bytes, RV::Bytes(_)) => true,
        (Sh::BytesN(n), RV::Bytes(x)) => x.len() == *n,
        (Sh::Opt(_), RV::None) => true,
        (Sh::Opt(t), RV::Some(x)) => conforms(x, t),
        (Sh::Vec(t), RV::Vec(xs)) => xs.iter().all(|x| conforms(x, t)),
        (Sh::Arr(t, n), RV::Vec(xs)) => xs.len() == *n && xs.iter().all(|x| conforms(x, t)),
        (Sh::Map(kk, t), RV::Map(k2, xs)) => {
            kk == k2 && xs.iter().all(|(k, x)| key_ok(k) && conforms(x, t))
        }
        (Sh::Set(kk), RV::Set(k2, xs)) => kk == k2 && xs.iter().all(key_ok),
        (Sh::Tup(ts), RV::Struct(fs)) => {
            fs.iter().all(|(id, x)| (*id as usize) < ts.len() && conforms(x, &ts[*id as usize]))
                && (0..ts.len()).all(|i| fs.iter().any(|(id, _)| *id as usize == i))
        }
        (Sh::Res(ok, err), RV::Enum(id, x)) => match id {
            0 => conforms(x, ok),
            1 => conforms(x, err),
            _ => false,
        },
        _ => false,
    }
}

fn key_ok(k: &Key) -> bool {
    match k {
        Key::Str(s) => std::str::from_utf8(s).is_ok(),
        _ => true,
    }
}

fn gen_key(r: &mut Rng, kk: KeyKind) -> Key {
    match kk {
        KeyKind::U32 => Key::U32(*r.pick(&[0u32, 1, 251, 252, 65536, u32::MAX])),
        KeyKind::I64 => Key::I64(*r.pick(&[0i64, -1, 124, -125, i64::MIN, i64::MAX])),
        KeyKind::Str => Key::Str(r.pick(&["", "a", "äö", "key"]).as_bytes().to_vec()),
        other => rv::gen_key(r, other),
    }
}

/// A random value conforming to `sh`.
pub fn gen(r: &mut Rng, sh: &Sh) -> RV {
    match sh {
        Sh::U32 => RV::U32(*r.pick(&[0u32, 7, 251, 252, 65535, 65536, 1 << 24, u32::MAX])),
        Sh::I64 => RV::I64(*r.pick(&[0i64, -1, 1, i64::MIN, i64::MAX])),
        Sh::U8 => RV::U8(r.below(256) as u8),
        Sh::Str => RV::Str(r.pick(&["", "x", "héllo", "漢字"]).as_bytes().to_vec()),
        Sh::Bytes => {
            let n = r.range(0, 9);
            RV::Bytes(r.bytes(n))
        }
        Sh::BytesN(n) => RV::Bytes(r.bytes(*n)),
        Sh::Opt(t) => {
            if r.chance(1, 3) {
                RV::None
            } else {
                RV::Some(Box::new(gen(r, t)))
            }
        }
        Sh::Vec(t) => {
            let n = r.range(0, 4);
            RV::Vec((0..n).map(|_| gen(r, t)).collect())
        }
        Sh::Arr(t, n) => RV::Vec((0..*n).map(|_| gen(r, t)).collect()),
        Sh::Map(kk, t) => {
            let n = r.range(0, 4);
            RV::Map(*kk, (0..n).map(|_| (gen_key(r, *kk), gen(r, t))).collect())
        }
        Sh::Set(kk) => {
            let n = r.range(0, 4);
            RV::Set(*kk, (0..n).map(|_| gen_key(r, *kk)).collect())
        }
        Sh::Tup(ts) => {
            let mut fs: Vec<(u32, RV)> = ts.iter().enumerate().map(|(i, t)| (i as u32, gen(r, t))).collect();
            r.shuffle(&mut fs);
            RV::Struct(fs)
        }
        Sh::Res(ok, err) => {
            if r.bool() {
                RV::Enum(0, Box::new(gen(r, ok)))
            } else {
                RV::Enum(1, Box::new(gen(r, err)))
            }
        }
    }
}

/// One structural change that usually (not always) makes the value non-conforming: the oracle
/// re-decides with `conforms`, so a neutral change is simply another valid input.
fn perturb(r: &mut Rng, v: &mut RV, sh: &Sh) {
    // walk to a random node
    let go_deeper = r.chance(2, 3);
    match (v, sh) {
        (RV::Vec(xs), Sh::Arr(t, _)) | (RV::Vec(xs), Sh::Vec(t)) => {
            if go_deeper && !xs.is_empty() {
                let i = r.below(xs.len());
                perturb(r, &mut xs[i], t);
            } else {
                match r.below(4) {
                    0 => {
                        xs.pop();
                    }
                    1 => xs.push(gen(r, t)),
                    2 if !xs.is_empty() => {
                        // an element of the wrong kind somewhere in the middle: the decoder has
                        // already built the elements before it
                        let i = r.below(xs.len());
                        xs[i] = rv::gen_leaf(r);
                    }
                    _ => {
                        let i = r.below(xs.len() + 1);
                        xs.insert(i, rv::gen_leaf(r));
                    }
                }
            }
        }
        (RV::Struct(fs), Sh::Tup(ts)) => {
            if go_deeper && !fs.is_empty() {
                let i = r.below(fs.len());
                let id = fs[i].0 as usize;
                if id < ts.len() {
                    perturb(r, &mut fs[i].1, &ts[id]);
                }
            } else {
                match r.below(4) {
                    0 if !fs.is_empty() => {
                        let i = r.below(fs.len());
                        fs.remove(i);
                    }
                    1 => {
                        // duplicate field: the earlier value is replaced (and must be dropped)
                        let i = r.below(ts.len());
                        let at = r.below(fs.len() + 1);
                        fs.insert(at, (i as u32, gen(r, &ts[i])));
                    }
                    2 => {
                        let at = r.below(fs.len() + 1);
                        fs.insert(at, (*r.pick(&[ts.len() as u32, 99, u32::MAX]), rv::gen_leaf(r)));
                    }
                    _ => {
                        if !fs.is_empty() {
                            let i = r.below(fs.len());
                            fs[i].1 = rv::gen_leaf(r);
                        }
                    }
                }
            }
        }
        (RV::Map(kk, xs), Sh::Map(_, t)) => {
            if go_deeper && !xs.is_empty() {
                let i = r.below(xs.len());
                perturb(r, &mut xs[i].1, t);
            } else if r.bool() && !xs.is_empty() {
                // duplicate key: the earlier value is replaced
                let i = r.below(xs.len());
                let k = xs[i].0.clone();
                xs.push((k, gen(r, t)));
            } else if !xs.is_empty() {
                let i = r.below(xs.len());
                xs[i].1 = rv::gen_leaf(r);
            } else {
                *kk = *r.pick(&rv::KEY_KINDS);
            }
        }
        (RV::Some(x), Sh::Opt(t)) => {
            if go_deeper {
                perturb(r, x, t)
            } else {
                **x = rv::gen_leaf(r)
            }
        }
        (RV::Enum(id, x), Sh::Res(ok, err)) => {
            if go_deeper {
                let t = if *id == 0 { ok } else { err };
                perturb(r, x, t)
            } else if r.bool() {
                *id = *r.pick(&[0u32, 1, 2, u32::MAX]);
            } else {
                **x = rv::gen_leaf(r)
            }
        }
        (RV::Bytes(x), _) => {
            if r.bool() {
                x.pop();
            } else {
                x.push(0)
            }
        }
        (v, _) => *v = rv::gen_leaf(r),
    }
}

type Cycle = fn(&SerializedValue) -> Result<Result<Vec<u8>, SerializeError>, DeserializeError>;

fn cycle<Tg: Tag, T>(sv: &SerializedValue) -> Result<Result<Vec<u8>, SerializeError>, DeserializeError>
where
    T: Deserialize<Tg>,
    for<'a> &'a T: Serialize<Tg>,
{
    let t: T = sv.deserialize_as::<Tg, T>()?;
    let out = SerializedValue::serialize_as::<Tg>(&t).map(|sv| real::sv_bytes(&sv));
    drop(t);
    Ok(out)
}

/// by-value decode only (types whose references do not serialize)
fn cycle_de<Tg: Tag, T: Deserialize<Tg>>(sv: &SerializedValue) -> Result<Result<Vec<u8>, SerializeError>, DeserializeError> {
    let t: T = sv.deserialize_as::<Tg, T>()?;
    drop(t);
    Ok(Ok(Vec::new()))
}

pub struct Target {
    pub name: &'static str,
    pub sh: Sh,
    pub run: Cycle,
    pub reencodes: bool,
}

type TU32 = tags::U32;
type TV<T> = tags::Vec<T>;

pub fn targets() -> Vec<Target> {
    let t = |name, sh, run, reencodes| Target { name, sh, run, reencodes };
    vec![
        t("[Tracked; 3]", Sh::Arr(b(Sh::U32), 3), cycle::<TV<TU32>, [Tracked; 3]> as Cycle, true),
        t("[Tracked; 0]", Sh::Arr(b(Sh::U32), 0), cycle::<TV<TU32>, [Tracked; 0]>, true),
        t("[Tracked; 1]", Sh::Arr(b(Sh::U32), 1), cycle::<TV<TU32>, [Tracked; 1]>, true),
        t("[Vec<Tracked>; 2]", Sh::Arr(b(Sh::Vec(b(Sh::U32))), 2), cycle::<TV<TV<TU32>>, [Vec<Tracked>; 2]>, true),
        t("Vec<[Tracked; 2]>", Sh::Vec(b(Sh::Arr(b(Sh::U32), 2))), cycle::<TV<TV<TU32>>, Vec<[Tracked; 2]>>, true),
        t("[[Tracked; 2]; 2]", Sh::Arr(b(Sh::Arr(b(Sh::U32), 2)), 2), cycle::<TV<TV<TU32>>, [[Tracked; 2]; 2]>, true),
        t("[String; 2]", Sh::Arr(b(Sh::Str), 2), cycle::<TV<tags::String>, [String; 2]>, true),
        t("[u8; 4] as bytes", Sh::BytesN(4), cycle::<tags::Bytes, [u8; 4]>, true),
        t("[u8; 0] as bytes", Sh::BytesN(0), cycle::<tags::Bytes, [u8; 0]>, true),
        t("[u8; 3] as vec<u8>", Sh::Arr(b(Sh::U8), 3), cycle::<TV<tags::U8>, [u8; 3]>, true),
        t("Vec<u8> as bytes", Sh::Bytes, cycle::<tags::Bytes, Vec<u8>>, true),
        t("VecDeque<u8> as bytes", Sh::Bytes, cycle::<tags::Bytes, VecDeque<u8>>, true),
        t("LinkedList<u8> as bytes", Sh::Bytes, cycle::<tags::Bytes, LinkedList<u8>>, true),
        t("bytes::Bytes as bytes", Sh::Bytes, cycle::<tags::Bytes, bytes::Bytes>, true),
        t("bytes::BytesMut as bytes", Sh::Bytes, cycle::<tags::Bytes, bytes::BytesMut>, true),
        t("bytes::Bytes as vec<u8>", Sh::Vec(b(Sh::U8)), cycle::<TV<tags::U8>, bytes::Bytes>, true),
        t("VecDeque<Tracked>", Sh::Vec(b(Sh::U32)), cycle::<TV<TU32>, VecDeque<Tracked>>, true),
        t("LinkedList<[Tracked; 2]>", Sh::Vec(b(Sh::Arr(b(Sh::U32), 2))), cycle::<TV<TV<TU32>>, LinkedList<[Tracked; 2]>>, true),
        t(
            "(Tracked, Option<String>, [Tracked; 2])",
            Sh::Tup(vec![Sh::U32, Sh::Opt(b(Sh::Str)), Sh::Arr(b(Sh::U32), 2)]),
            cycle::<(TU32, tags::Option<tags::String>, TV<TU32>), (Tracked, Option<String>, [Tracked; 2])>,
            true,
        ),
        t("([Tracked; 2],)", Sh::Tup(vec![Sh::Arr(b(Sh::U32), 2)]), cycle::<(TV<TU32>,), ([Tracked; 2],)>, true),
        t(
            "HashMap<u32, [Tracked; 2]>",
            Sh::Map(KeyKind::U32, b(Sh::Arr(b(Sh::U32), 2))),
            cycle::<tags::Map<TU32, TV<TU32>>, HashMap<u32, [Tracked; 2]>>,
            true,
        ),
        t(
            "BTreeMap<String, Vec<Tracked>>",
            Sh::Map(KeyKind::Str, b(Sh::Vec(b(Sh::U32)))),
            cycle::<tags::Map<tags::String, TV<TU32>>, BTreeMap<String, Vec<Tracked>>>,
            true,
        ),
        t("BTreeSet<i64>", Sh::Set(KeyKind::I64), cycle::<tags::Set<tags::I64>, BTreeSet<i64>>, true),
        t("HashSet<String>", Sh::Set(KeyKind::Str), cycle::<tags::Set<tags::String>, HashSet<String>>, true),
        t(
            "Result<[Tracked; 2], String>",
            Sh::Res(b(Sh::Arr(b(Sh::U32), 2)), b(Sh::Str)),
            cycle::<Result<TV<TU32>, tags::String>, Result<[Tracked; 2], String>>,
            true,
        ),
        t(
            "Option<[Option<Tracked>; 3]>",
            Sh::Opt(b(Sh::Arr(b(Sh::Opt(b(Sh::U32))), 3))),
            cycle::<tags::Option<TV<tags::Option<TU32>>>, Option<[Option<Tracked>; 3]>>,
            true,
        ),
        t("() as empty vec", Sh::Arr(b(Sh::U32), 0), cycle_de::<TV<TU32>, ()>, false),
        t("() as empty bytes", Sh::BytesN(0), cycle_de::<tags::Bytes, ()>, false),
    ]
}

pub fn num_targets() -> usize {
    28
}

/// One typed-decode case: target and input from (seed, idx).
pub fn run_case(ctx: &Ctx, idx: u64, out: &mut Outcome) {
    let mut r = Rng::derive(ctx.seed, idx, 0x7C07);
    let ts = targets();
    let t = &ts[(idx as usize / 7) % ts.len()];
    let mut v = gen(&mut r, &t.sh);
    let class = match idx % 7 {
        0 => "conforming",
        1 | 2 | 3 => {
            let n = r.range(1, 2);
            for _ in 0..n {
                perturb(&mut r, &mut v, &t.sh);
            }
            "perturbed"
        }
        4 => "foreign",
        _ => "bytes-mutated",
    };
    if class == "foreign" {
        // a value generated for another target, or any value at all
        if r.bool() {
            let t2 = r.below(ts.len());
            v = gen(&mut r, &ts[t2].sh);
        } else {
            let mut budget = r.range(2, 20);
            v = rv::gen_value(&mut r, 3, &mut budget);
        }
    }
    let mut bytes = match r.below(4) {
        0 => rv::encode_epoch(&v, rv::Epoch::V1),
        1 => rv::encode_epoch(&v, rv::Epoch::V2),
        2 => rv::encode_mixed(&v, &mut r, false),
        _ => rv::encode_mixed(&v, &mut r, true),
    };
    if class == "bytes-mutated" {
        let other = rv::encode_epoch(&gen(&mut r, &t.sh), rv::Epoch::V2);
        if r.chance(1, 3) && bytes.len() > 1 {
            let n = r.range(1, bytes.len() - 1);
            bytes.truncate(n);
        } else {
            let n = r.range(1, 2);
            for _ in 0..n {
                mutate::mutate(&mut r, &mut bytes, &other);
            }
        }
        if bytes.is_empty() {
            bytes.push(0);
        }
    }
    probe(ctx, idx, t, class, &bytes, out);
}

pub fn probe(ctx: &Ctx, idx: u64, t: &Target, class: &str, bytes: &[u8], out: &mut Outcome) {
    out.count("typed_inputs", 1);
    out.count(&format!("typed_inputs[{}]", class), 1);
    out.seen("typed_targets", t.name);
    let rp = |extra: serde_json::Value| {
        json!({"property": "C07", "part": "typed", "seed": ctx.seed, "case": idx, "tier": ctx.tier.name(),
               "target": t.name, "class": class, "bytes": hex(&bytes[..bytes.len().min(4096)]), "observed": extra})
    };
    let reference = rv::ref_skip(bytes);
    let expected: Option<RV> = match &reference {
        Ok((v, used)) if *used == bytes.len() && conforms(v, &t.sh) => Some(v.normalize()),
        _ => None,
    };
    let Some(sv) = real::sv_from_bytes(bytes) else { return };
    let live0 = LIVE.with(|l| l.get());
    let made0 = MADE.with(|m| m.get());
    MIN_LIVE.with(|m| m.set(live0));
    let run = t.run;
    let (res, peak, _) = measured(|| guarded(|| run(&sv)));
    let live1 = LIVE.with(|l| l.get());
    let made = MADE.with(|m| m.get()) - made0;
    let min_live = MIN_LIVE.with(|m| m.get());
    out.count("typed_elements_constructed", made);
    let limit = 512 * bytes.len() + 64 * 1024;
    out.max("typed_max_peak_alloc_bytes", peak as u64);
    if peak > limit {
        out.violation("typed:alloc-bound", format!("decoding into {} allocated peak {} bytes for {} input bytes (bound {})", t.name, peak, bytes.len(), limit), rp(json!({"peak": peak})));
    }
    let outcome = match &res {
        Err(_) => "panic",
        Ok(Ok(_)) => "ok",
        Ok(Err(_)) => "err",
    };
    // conservation of elements: everything the decoder built has been dropped exactly once by now
    if live1 != live0 || min_live < live0 {
        let what = if min_live < live0 || live1 < live0 { "typed:element-dropped-twice" } else { "typed:element-leaked" };
        out.violation(
            what,
            format!(
                "decoding into {} ({}): {} element(s) constructed, live counter {} -> {} (lowest {}): every constructed element must be dropped exactly once",
                t.name, outcome, made, live0, live1, min_live
            ),
            rp(json!({"constructed": made, "live_before": live0, "live_after": live1, "lowest": min_live})),
        );
        LIVE.with(|l| l.set(live0));
    }
    if made > 0 && outcome == "err" {
        out.count("typed_failed_after_constructing_elements", 1);
    }
    match res {
        Err(p) => out.violation(format!("typed:panic:{}", panic_site(&p)), format!("decoding into {}: {}", t.name, p), rp(json!(null))),
        Ok(Err(e)) => {
            out.count("typed_rejected", 1);
            if expected.is_some() {
                out.violation(
                    "typed:rejects-conforming",
                    format!("decoding into {} failed with {:?} although the value conforms: {}", t.name, e, expected.as_ref().unwrap().render(300)),
                    rp(json!(null)),
                );
            }
        }
        Ok(Ok(re)) => {
            out.count("typed_accepted", 1);
            out.count(&format!("typed_accepted[{}]", t.name), 1);
            let Some(exp) = expected else {
                out.violation(
                    "typed:accepts-nonconforming",
                    format!(
                        "decoding into {} succeeded although the input is not a complete conforming value (reference: {})",
                        t.name,
                        match &reference {
                            Ok((v, used)) => format!("{} using {} of {} bytes", v.render(300), used, bytes.len()),
                            Err(e) => format!("{:?}", e),
                        }
                    ),
                    rp(json!(null)),
                );
                return;
            };
            if !t.reencodes {
                return;
            }
            match re {
                Err(e) => out.violation("typed:reencode-fails", format!("{}: {:?}", t.name, e), rp(json!(null))),
                Ok(b2) => match rv::ref_skip(&b2) {
                    Ok((v2, used)) if used == b2.len() && v2.normalize() == exp => {}
                    other => out.violation(
                        "typed:meaning-changed",
                        format!(
                            "{}: decoded value re-serializes to {:?}, expected {}",
                            t.name,
                            other.map(|(x, _)| x.render(300)),
                            exp.render(300)
                        ),
                        rp(json!({"reserialized": hex_trunc(&b2, 400)})),
                    ),
                },
            }
        }
    }
}
