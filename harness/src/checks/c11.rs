//! C11: hostile message sequences (see buschecks::C11 for the bulk workload) plus fixed probes
//! for payloads that a peer would have to re-encode.

use super::buschecks;
use super::Check;
use crate::bus::model::Input;
use crate::bus::rig::Rig;
use crate::codec::real;
use crate::report::{Ctx, Outcome, Tier};
use aldrin_core::message::*;
use aldrin_core::{ChannelEndWithCapacity, ObjectUuid, ServiceUuid};
use serde_json::json;

pub struct C11;

/// Bytes that no decoder accepts: a vector (1.20 encoding) whose element marker is invalid.
pub fn ill_formed() -> aldrin_core::SerializedValue {
    real::sv_from_bytes(&[43, 7, 3, 1]).unwrap()
}

/// Sets up victim (version `vv`) and abuser (version `av`); returns what the probe needs.
pub struct Setup {
    pub rig: Rig,
    pub victim: usize,
    pub abuser: usize,
    pub svc: aldrin_core::ServiceCookie,
    pub chan_to_victim: aldrin_core::ChannelCookie,
    pub chan_from_victim_pending: Option<u32>,
}

pub fn setup(vv: u32, av: u32) -> Result<Setup, String> {
    let mut rig = Rig::new();
    let victim = rig.connect(vv);
    let abuser = rig.connect(av);
    let e = |m: crate::bus::rig::Mismatch| format!("{}: {}", m.what, m.detail);
    rig.burst(&[Input::Msg(victim, CreateObject { serial: 1, uuid: ObjectUuid(crate::bus::gen::pool_uuid(1, 0)) }.into())]).map_err(e)?;
    let oc = rig.model().objs.values().next().ok_or("no object")?.cookie;
    rig.burst(&[Input::Msg(victim, CreateService { serial: 2, object_cookie: oc, uuid: ServiceUuid(crate::bus::gen::pool_uuid(2, 0)), version: 1 }.into())]).map_err(e)?;
    let svc = rig.model().svcs.values().next().ok_or("no service")?.cookie;
    // victim subscribes to an event of a service owned by the abuser
    rig.burst(&[Input::Msg(abuser, CreateObject { serial: 1, uuid: ObjectUuid(crate::bus::gen::pool_uuid(1, 1)) }.into())]).map_err(e)?;
    let oc2 = rig.model().objs.values().find(|o| o.owner == abuser).ok_or("no object")?.cookie;
    rig.burst(&[Input::Msg(abuser, CreateService { serial: 2, object_cookie: oc2, uuid: ServiceUuid(crate::bus::gen::pool_uuid(2, 1)), version: 1 }.into())]).map_err(e)?;
    let svc2 = rig.model().svcs.values().find(|s| s.owner == abuser).ok_or("no service")?.cookie;
    rig.burst(&[Input::Msg(victim, SubscribeEvent { serial: Some(3), service_cookie: svc2, event: 0 }.into())]).map_err(e)?;
    // a channel abuser -> victim with capacity
    rig.burst(&[Input::Msg(abuser, CreateChannel { serial: 3, end: ChannelEndWithCapacity::Sender }.into())]).map_err(e)?;
    let ch = rig.model().chans.values().next().ok_or("no channel")?.cookie;
    rig.burst(&[Input::Msg(victim, ClaimChannelEnd { serial: 4, cookie: ch, end: ChannelEndWithCapacity::Receiver(8) }.into())]).map_err(e)?;
    // the victim has a call pending at the abuser's service
    rig.burst(&[Input::Msg(victim, CallFunction { serial: 5, service_cookie: svc2, function: 0, value: aldrin_core::SerializedValue::serialize(()).unwrap() }.into())]).map_err(e)?;
    let pending = rig.model().calls.values().next().map(|k| k.callee_serial);
    Ok(Setup { rig, victim, abuser, svc, chan_to_victim: ch, chan_from_victim_pending: pending })
}

impl Check for C11 {
    fn id(&self) -> &'static str {
        "C11"
    }
    fn level(&self) -> &'static str {
        "exploration"
    }
    fn rule(&self) -> &'static str {
        buschecks::C11.rule
    }
    fn assumptions(&self) -> Vec<String> {
        let mut a = buschecks::C11.assumptions();
        a.push("garbage payloads in the bulk workload are only sent where no peer has to re-encode them (sender below 1.20); the re-encoding case is exercised by four fixed probes and is a recorded known finding".into());
        a
    }
    fn total_cases(&self, tier: Tier) -> u64 {
        buschecks::C11.total_cases(tier)
    }
    fn run_case(&self, ctx: &Ctx, idx: u64, out: &mut Outcome) {
        buschecks::C11.run_case(ctx, idx, out)
    }
    fn gates(&self, tier: Tier, merged: &Outcome) -> Vec<String> {
        let mut g = buschecks::C11.gates(tier, merged);
        if merged.counters.get("reencode_probes").copied().unwrap_or(0) == 0 {
            g.push("re-encoding probes did not run".into());
        }
        g
    }
    fn once(&self, ctx: &Ctx, out: &mut Outcome) {
        // ill-formed payload from a 1.20 connection towards an entity of a pre-1.20 connection
        for vv in [14u32, 17, 19] {
            for kind in ["CallFunction", "CallFunctionReply", "EmitEvent", "ItemReceived"] {
                let s = match setup(vv, 20) {
                    Ok(s) => s,
                    Err(e) => {
                        out.violation(format!("probe-setup:{}", kind), format!("setting up the re-encoding probe failed against the model: {}", e), json!({"probe": kind, "victim_version": vv}));
                        continue;
                    }
                };
                let Setup { mut rig, victim, abuser, svc, chan_to_victim, chan_from_victim_pending } = s;
                let svc2 = rig.model().svcs.values().find(|x| x.owner == abuser).map(|x| x.cookie).unwrap();
                let msg: Message = match kind {
                    "CallFunction" => CallFunction { serial: 900, service_cookie: svc, function: 0, value: ill_formed() }.into(),
                    "CallFunctionReply" => CallFunctionReply { serial: chan_from_victim_pending.unwrap_or(0), result: CallFunctionResult::Ok(ill_formed()) }.into(),
                    "EmitEvent" => EmitEvent { service_cookie: svc2, event: 0, value: ill_formed() }.into(),
                    _ => SendItem { cookie: chan_to_victim, value: ill_formed() }.into(),
                };
                let real = rig.cands[0].bind.input_to_real(&msg);
                rig.conns[abuser].end.push(real);
                let t = rig.conns[abuser].task;
                rig.dx.run_task(t);
                rig.settle();
                out.count("reencode_probes", 1);
                out.eval();
                let victim_closed = rig.conns[victim].end.peer_closed();
                let result = rig.conns[victim].result.borrow().clone().unwrap_or_default();
                for (task, p) in rig.dx.panics.clone() {
                    out.violation(format!("panic:{}:{}", task, crate::guard::panic_site(&p)), format!("task {} panicked in the re-encoding probe: {}", task, p), json!({"probe": kind, "victim_version": vv, "seed": ctx.seed}));
                }
                if victim_closed {
                    out.violation(
                        format!("recipient-closed-by-unconvertible-payload:{}", kind),
                        format!(
                            "a 1.20 connection sent {} with an ill-formed payload towards a 1.{} connection; re-encoding failed in the recipient's connection task, which ended the well-behaved recipient ({})",
                            kind, vv, result
                        ),
                        json!({"probe": kind, "victim_version": vv, "abuser_version": 20, "payload_hex": "2b070301"}),
                    );
                } else {
                    out.count("reencode_probe_recipient_survived", 1);
                }
                rig.dx.shutdown();
            }
        }
    }
}
