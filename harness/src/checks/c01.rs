//! C01 — value codec round-trip and nesting limit (DESIGN.md section 3).

use super::Check;
use crate::codec::real;
use crate::codec::rv::{self, Epoch, RV};
use crate::guard::{guarded, panic_site};
use crate::prng::{fnv, Rng};
use crate::report::{hex_trunc, Ctx, Outcome, Tier};
use aldrin_core::{DeserializeError, SerializeError};
use serde_json::json;

pub struct C01;

fn target_depth(r: &mut Rng) -> usize {
    match r.below(10) {
        0..=2 => r.range(1, 4),
        3..=4 => r.range(5, 29),
        5..=7 => r.range(30, 34), // around the limit
        _ => r.range(35, 40),
    }
}

pub fn gen_case(seed: u64, idx: u64) -> (RV, Rng) {
    let mut r = Rng::derive(seed, idx, 0xC01);
    let d = target_depth(&mut r);
    let mut budget = r.range(4, 60);
    let v = rv::gen_value(&mut r, d, &mut budget);
    (v, r)
}

impl Check for C01 {
    fn id(&self) -> &'static str {
        "C01"
    }
    fn level(&self) -> &'static str {
        "exploration"
    }
    fn rule(&self) -> &'static str {
        "case i = value tree generated from (seed,i): target depth 1..40 (30% at 30..34), every \
         nesting kind as a step, boundary-table integers, NaN payloads, empty/large containers; \
         each is pushed through real encode (current + legacy builders), real decode, reference \
         decode of real bytes, real decode of reference bytes (legacy / current / per-container \
         mixed / non-minimal varints and chunked bytes) and a trailing-byte probe. distinct = \
         FNV hash of the reference encoding; non-trivial = encoding longer than 2 bytes"
    }
    fn assumptions(&self) -> Vec<String> {
        vec![
            "reference codec (harness/src/codec/rv.rs) transcribes the wire layout correctly; it is cross-checked against the real codec in both directions on every case".into(),
            "profile verif = release + debug-assertions + overflow-checks".into(),
        ]
    }
    fn total_cases(&self, tier: Tier) -> u64 {
        match tier {
            Tier::Quick => 24_000,
            Tier::Thorough => 2_400_000,
        }
    }

    fn run_case(&self, ctx: &Ctx, idx: u64, out: &mut Outcome) {
        let (v, mut r) = gen_case(ctx.seed, idx);
        check_value(ctx, idx, &v, &mut r, out);
    }

    fn once(&self, ctx: &Ctx, out: &mut Outcome) {
        deep_probes(ctx, out);
    }

    fn gates(&self, _tier: Tier, m: &Outcome) -> Vec<String> {
        let mut unmet = Vec::new();
        let kinds = m.sets.get("value_kinds").map(|s| s.len()).unwrap_or(0);
        if kinds < rv::NUM_RV_KINDS {
            unmet.push(format!("only {}/{} value kinds generated", kinds, rv::NUM_RV_KINDS));
        }
        for d in [31, 32, 33] {
            if m.counters.get(&format!("depth[{}]", d)).copied().unwrap_or(0) == 0 {
                unmet.push(format!("no value of depth {}", d));
            }
        }
        if m.counters.get("deep_probes").copied().unwrap_or(0) == 0 {
            unmet.push("deep-chain probes did not run".into());
        }
        unmet
    }
}

fn replay(ctx: &Ctx, idx: u64, v: &RV, extra: serde_json::Value) -> serde_json::Value {
    json!({"property": "C01", "seed": ctx.seed, "case": idx, "tier": ctx.tier.name(),
           "depth": v.depth(), "value": v.render(2000), "observed": extra})
}

pub fn check_value(ctx: &Ctx, idx: u64, v: &RV, r: &mut Rng, out: &mut Outcome) {
    out.eval();
    let depth = v.depth();
    let norm = v.normalize();
    let ref_v2 = rv::encode_epoch(v, Epoch::V2);
    let ref_v1 = rv::encode_epoch(v, Epoch::V1);
    if ref_v2.len() > 2 {
        out.distinct_case(fnv(&ref_v2));
    }
    out.count(&format!("depth[{}]", depth), 1);
    v.visit(
        &mut |n, _| {
            out.sets
                .entry("value_kinds".into())
                .or_default()
                .insert(format!("{:02}", rv::rv_kind_index(n)));
        },
        1,
    );
    if idx < 3 {
        out.sample(json!({"case": idx, "depth": depth, "value": v.render(300),
                          "enc_v2": hex_trunc(&ref_v2, 48), "enc_v1": hex_trunc(&ref_v1, 48)}));
    }

    let fail = |out: &mut Outcome, sig: &str, detail: String, extra: serde_json::Value| {
        out.violation(sig, detail, replay(ctx, idx, v, extra));
    };

    // ---- real serialization, both epochs -------------------------------------------------
    let av = rv::to_aldrin(v);
    let enc2 = guarded(|| real::encode_v2(&av));
    let enc1 = guarded(|| real::encode_v1(v));
    let (enc2, enc1) = match (enc2, enc1) {
        (Ok(a), Ok(b)) => (a, b),
        (a, b) => {
            let msg = a.err().or(b.err()).unwrap();
            fail(out, &format!("panic:serialize:{}", panic_site(&msg)), msg, json!(null));
            return;
        }
    };

    if depth > rv::MAX_DEPTH {
        out.count("too_deep_values", 1);
        for (name, e) in [("current", &enc2), ("legacy", &enc1)] {
            match e {
                Err(SerializeError::TooDeeplyNested) => {}
                other => fail(
                    out,
                    &format!("serialize-too-deep-not-rejected:{}", name),
                    format!("depth {} value: serialize ({}) returned {:?}", depth, name, other.as_ref().map(|b| b.len())),
                    json!(null),
                ),
            }
        }
        // symmetric: decoding reference-encoded too-deep bytes
        let mixed = rv::encode_mixed(v, r, false);
        for (name, bytes) in [("legacy", &ref_v1), ("current", &ref_v2), ("mixed", &mixed)] {
            match guarded(|| real::decode(bytes)) {
                Ok(Some(Err(DeserializeError::TooDeeplyNested))) => {}
                Ok(other) => fail(
                    out,
                    &format!("deserialize-too-deep-not-rejected:{}", name),
                    format!("depth {} bytes ({}): decode returned {:?}", depth, name, other.map(|x| x.map(|_| "Ok(value)"))),
                    json!({"bytes": hex_trunc(bytes, 400)}),
                ),
                Err(p) => fail(out, &format!("panic:deserialize:{}", panic_site(&p)), p, json!({"bytes": hex_trunc(bytes, 400)})),
            }
        }
        return;
    }

    out.count("in_range_values", 1);
    let (enc2, enc1) = match (enc2, enc1) {
        (Ok(a), Ok(b)) => (a, b),
        (a, b) => {
            fail(
                out,
                "serialize-rejected-in-range",
                format!("depth {} value: current={:?} legacy={:?}", depth, a.err(), b.err()),
                json!(null),
            );
            return;
        }
    };

    // kinds used by each epoch's real encoding
    if let Ok(kinds) = rv::scan_kinds(&enc1) {
        if kinds.iter().any(|k| rv::is_v2_kind(*k)) {
            fail(out, "legacy-builders-emit-new-kind", "legacy builders produced a 1.20 container kind".into(), json!({"bytes": hex_trunc(&enc1, 400)}));
        }
    }

    let mixed = rv::encode_mixed(v, r, false);
    let exotic = rv::encode_mixed(v, r, true);
    let inputs: [(&str, &Vec<u8>); 6] = [
        ("real-current", &enc2),
        ("real-legacy", &enc1),
        ("ref-current", &ref_v2),
        ("ref-legacy", &ref_v1),
        ("ref-mixed", &mixed),
        ("ref-exotic", &exotic),
    ];
    for (name, bytes) in inputs {
        out.count("decodes", 1);
        // reference decoder on these bytes: same value, all bytes consumed
        match rv::ref_skip(bytes) {
            Ok((rvv, used)) => {
                if used != bytes.len() {
                    fail(out, &format!("ref-consumed-mismatch:{}", name), format!("reference decoder consumed {} of {}", used, bytes.len()), json!({"bytes": hex_trunc(bytes, 400)}));
                }
                if rvv.normalize() != norm {
                    fail(out, &format!("ref-decode-differs:{}", name), format!("reference decode of {} bytes differs from the source value: {}", name, rvv.render(400)), json!({"bytes": hex_trunc(bytes, 400)}));
                }
            }
            Err(e) => fail(out, &format!("ref-decode-fails:{}", name), format!("reference decoder rejects {} bytes: {:?}", name, e), json!({"bytes": hex_trunc(bytes, 400)})),
        }
        // real decoder
        match guarded(|| real::decode(bytes)) {
            Ok(Some(Ok(val))) => {
                let got = rv::from_aldrin(&val);
                if got != norm {
                    fail(out, &format!("roundtrip-differs:{}", name), format!("decoded value differs: {}", got.render(600)), json!({"bytes": hex_trunc(bytes, 400)}));
                }
            }
            Ok(other) => fail(out, &format!("decode-fails:{}", name), format!("decode of {} bytes returned {:?}", name, other.map(|x| x.err())), json!({"bytes": hex_trunc(bytes, 400)})),
            Err(p) => fail(out, &format!("panic:deserialize:{}", panic_site(&p)), p, json!({"bytes": hex_trunc(bytes, 400)})),
        }
    }

    // consuming exactly all bytes: one appended byte must be rejected
    for (name, bytes) in [("real-current", &enc2), ("real-legacy", &enc1)] {
        let mut b = bytes.clone();
        b.push(r.next_u64() as u8);
        match guarded(|| real::decode(&b)) {
            Ok(Some(Err(_))) => {}
            Ok(other) => fail(out, &format!("trailing-byte-accepted:{}", name), format!("{:?}", other.map(|x| x.is_ok())), json!({"bytes": hex_trunc(&b, 400)})),
            Err(p) => fail(out, &format!("panic:deserialize:{}", panic_site(&p)), p, json!({"bytes": hex_trunc(&b, 400)})),
        }
    }
}

/// Deep chains of every nesting kind, far beyond the limit, on a small thread stack. A stack
/// overflow kills this process; the parent reports that as a violation using the last
/// `@@PHASE` line.
fn deep_probes(_ctx: &Ctx, out: &mut Outcome) {
    let kinds = ["some", "enum", "vec", "map", "struct"];
    for (ki, kname) in kinds.iter().enumerate() {
        for epoch in [Epoch::V1, Epoch::V2] {
            for n in [33usize, 1_000, 100_000] {
                println!("@@PHASE deep-chain decode kind={} epoch={:?} n={}", kname, epoch, n);
                let bytes = rv::deep_chain_bytes(ki, n, epoch);
                let b2 = bytes.clone();
                let res = std::thread::Builder::new()
                    .stack_size(256 * 1024)
                    .spawn(move || {
                        let d = guarded(|| real::decode(&b2));
                        let s = guarded(|| real::len_then_skip(&b2));
                        let sp = guarded(|| real::split_off(&b2));
                        (d, s, sp)
                    })
                    .unwrap()
                    .join();
                out.count("deep_probes", 1);
                match res {
                    Ok((d, s, sp)) => {
                        let ok_d = matches!(d, Ok(Some(Err(DeserializeError::TooDeeplyNested))));
                        let ok_s = matches!(s, Ok(Some(Err(DeserializeError::TooDeeplyNested))));
                        let ok_sp = matches!(sp, Ok(Some(Err(DeserializeError::TooDeeplyNested))));
                        if !(ok_d && ok_s && ok_sp) {
                            out.violation(
                                format!("deep-chain-not-rejected:{}", kname),
                                format!("chain of {} {} ({:?}): decode={:?} skip={:?} split={:?}", n, kname, epoch, d.map(|x| x.map(|y| y.err())), s, sp.map(|x| x.map(|y| y.err()))),
                                json!({"property": "C01", "probe": "deep-chain", "kind": kname, "n": n}),
                            );
                        }
                    }
                    Err(_) => out.violation(format!("deep-chain-thread-died:{}", kname), "probe thread panicked", json!({"kind": kname, "n": n})),
                }
            }
        }
    }
    // serialization side: deep dynamic values built iteratively (and leaked: dropping would
    // recurse in the harness, not in the subject)
    for (ki, kname) in kinds.iter().enumerate() {
        for n in [33usize, 5_000] {
            println!("@@PHASE deep-chain serialize kind={} n={}", kname, n);
            let res = std::thread::Builder::new()
                .stack_size(256 * 1024)
                .spawn(move || {
                    use aldrin_core::Value as V;
                    let mut v = V::U8(1);
                    for _ in 0..n {
                        v = match ki {
                            0 => V::Some(Box::new(v)),
                            1 => V::Enum(Box::new(aldrin_core::Enum::new(0, v))),
                            2 => V::Vec(vec![v]),
                            3 => V::U8Map([(1u8, v)].into_iter().collect()),
                            _ => V::Struct(aldrin_core::Struct([(1u32, v)].into_iter().collect())),
                        };
                    }
                    let r = guarded(|| real::encode_v2(&v));
                    std::mem::forget(v);
                    r
                })
                .unwrap()
                .join();
            out.count("deep_probes", 1);
            match res {
                Ok(Ok(Err(SerializeError::TooDeeplyNested))) => {}
                other => out.violation(
                    format!("deep-chain-serialize-not-rejected:{}", kname),
                    format!("{:?}", other.map(|x| x.map(|y| y.map(|b| b.len())))),
                    json!({"kind": kname, "n": n}),
                ),
            }
        }
    }
    println!("@@PHASE done");
}
