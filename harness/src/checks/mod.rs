use crate::report::{Ctx, Outcome, Tier};

pub mod c01;
pub mod c07;
pub mod c08;
pub mod c13;
pub mod c14;
pub mod buschecks;
pub mod c04;
pub mod c05;
pub mod c06;
pub mod c09;
pub mod c11;
pub mod c12;
pub mod c15;
pub mod c16;
pub mod c19;
pub mod c20;
pub mod typed;
pub mod schema_checks;

/// One property check. Cases are numbered globally (0..total); case `i` derives all its random
/// choices from (seed, i), so a violation replays from those two numbers alone.
pub trait Check: Sync {
    fn id(&self) -> &'static str;
    /// level category written into the evidence file
    fn level(&self) -> &'static str;
    /// how cases are generated and what makes one distinct / non-trivial
    fn rule(&self) -> &'static str;
    fn assumptions(&self) -> Vec<String>;
    fn total_cases(&self, tier: Tier) -> u64;
    fn run_case(&self, ctx: &Ctx, idx: u64, out: &mut Outcome);
    /// work done once per run (shard 0), e.g. abort probes and fixed grids
    fn once(&self, _ctx: &Ctx, _out: &mut Outcome) {}
    /// coverage gates on the merged outcome; unmet gates make the run inconclusive (exit 2)
    fn gates(&self, _tier: Tier, _merged: &Outcome) -> Vec<String> {
        Vec::new()
    }
    /// wall-clock budget per shard in seconds (stopping early is recorded, not a verdict)
    fn budget_s(&self, tier: Tier) -> u64 {
        match tier {
            Tier::Quick => 90,
            Tier::Thorough => 1500,
        }
    }
}

pub fn all() -> Vec<Box<dyn Check>> {
    vec![Box::new(c01::C01), Box::new(c07::C07), Box::new(c08::C08), Box::new(c13::C13), Box::new(c14::C14), Box::new(buschecks::C02), Box::new(buschecks::C03), Box::new(c04::C04), Box::new(buschecks::C10), Box::new(c05::C05), Box::new(c09::C09), Box::new(c11::C11), Box::new(c12::C12), Box::new(c06::C06), Box::new(c15::C15), Box::new(c19::C19), Box::new(schema_checks::C17), Box::new(schema_checks::C18), Box::new(c20::C20), Box::new(c16::C16)]
}

pub fn find(id: &str) -> Option<Box<dyn Check>> {
    all().into_iter().find(|c| c.id() == id)
}
