//! C13 — value epoch conversion preserves meaning and removes new encodings (DESIGN.md §3).

use super::Check;
use crate::codec::real;
use crate::codec::rv::{self, Epoch, RV};
use crate::guard::{guarded, panic_site};
use crate::prng::{fnv, Rng};
use crate::report::{hex, hex_trunc, Ctx, Outcome, Tier};
use aldrin_core::message::{
    CallFunction, CallFunction2, CallFunctionReply, CallFunctionResult, Connect, Connect2,
    ConnectReply, ConnectReply2, ConnectResult, CreateService2, EmitEvent, ItemReceived, Message,
    MessageOps, QueryIntrospectionReply, QueryIntrospectionResult, QueryServiceInfoReply,
    QueryServiceInfoResult, RegisterIntrospection, SendItem,
};
use aldrin_core::{
    ChannelCookie, ObjectCookie, ProtocolVersion, SerializedValue, ServiceCookie, ServiceUuid,
    ValueConversionError,
};
use serde_json::json;
use std::borrow::Cow;

pub struct C13;

const VERSIONS: [(u32, u32); 12] = [
    (1, 13),
    (1, 14),
    (1, 15),
    (1, 16),
    (1, 17),
    (1, 18),
    (1, 19),
    (1, 20),
    (1, 21),
    (2, 0),
    (0, 20),
    (2, 14),
];

fn supported(v: (u32, u32)) -> bool {
    v.0 == 1 && (14..=20).contains(&v.1)
}

fn epoch_of(v: (u32, u32)) -> Epoch {
    if v.1 >= 20 {
        Epoch::V2
    } else {
        Epoch::V1
    }
}

fn gen_bytes(r: &mut Rng) -> (Vec<u8>, &'static str) {
    match r.below(10) {
        0..=6 => {
            let d = match r.below(8) {
                0..=2 => r.range(1, 4),
                3..=4 => r.range(5, 29),
                5..=6 => r.range(30, 32),
                _ => r.range(33, 36),
            };
            let mut budget = r.range(2, 50);
            let v = rv::gen_value(r, d, &mut budget);
            match r.below(4) {
                0 => (rv::encode_epoch(&v, Epoch::V2), "ref-current"),
                1 => (rv::encode_epoch(&v, Epoch::V1), "ref-legacy"),
                2 => (rv::encode_mixed(&v, r, false), "ref-mixed"),
                _ => (rv::encode_mixed(&v, r, true), "ref-exotic"),
            }
        }
        7 => {
            // valid encoding with an invalid-UTF-8 string spliced in (skip-valid, decode-invalid)
            let inner = RV::Str(vec![0xff, 0xfe, b'a']);
            let v = RV::Vec(vec![RV::U8(1), inner, RV::Map(rv::KeyKind::Str, vec![(rv::Key::Str(vec![0xc3]), RV::None)])]);
            (rv::encode_mixed(&v, r, false), "bad-utf8")
        }
        _ => {
            let (mut inputs, _, _) = super::c07::gen_input(r.next_u64(), r.below(10) as u64);
            let i = r.below(inputs.len());
            (inputs.swap_remove(i), "malformed-or-mutated")
        }
    }
}

impl Check for C13 {
    fn id(&self) -> &'static str {
        "C13"
    }
    fn level(&self) -> &'static str {
        "exploration"
    }
    fn rule(&self) -> &'static str {
        "case i = (bytes, from, to): bytes are reference encodings of generated values (current, \
         legacy, per-container mixed, non-minimal varints; depth to 36), a bad-UTF-8 specimen, or \
         C07's malformed/mutated inputs; from in {None} + 12 versions, to in 12 versions in and \
         around 1.14..1.20. Monitored: SerializedValueSlice::convert, SerializedValue::convert and \
         MessageOps::convert_value on all 14 payload-carrying message kinds. distinct = hash of \
         (bytes, from, to); non-trivial = a real down-conversion (from epoch 1.20 to an older one) \
         of a well-formed value containing at least one 1.20 container kind"
    }
    fn assumptions(&self) -> Vec<String> {
        vec!["reference skipper defines well-formedness (UTF-8 aside); reference kind scanner defines 'contains a 1.20 container encoding'".into()]
    }
    fn total_cases(&self, tier: Tier) -> u64 {
        match tier {
            Tier::Quick => 40_000,
            Tier::Thorough => 4_000_000,
        }
    }
    fn run_case(&self, ctx: &Ctx, idx: u64, out: &mut Outcome) {
        let mut r = Rng::derive(ctx.seed, idx, 0xC13);
        let (bytes, class) = gen_bytes(&mut r);
        if bytes.is_empty() {
            return;
        }
        // version pair: bias to the interesting quadrant
        let (from, to) = if r.chance(3, 5) {
            let from = if r.bool() { None } else { Some((1, 20)) };
            (from, (1, r.range(14, 19) as u32))
        } else {
            let from = if r.chance(1, 6) { None } else { Some(*r.pick(&VERSIONS)) };
            (from, *r.pick(&VERSIONS))
        };
        check_convert(ctx, idx, &bytes, class, from, to, &mut r, out);
    }
    fn gates(&self, _tier: Tier, m: &Outcome) -> Vec<String> {
        let mut unmet = Vec::new();
        for key in ["down_converted_ok", "unchanged_ok", "invalid_version", "ill_formed_rejected", "too_deep_rejected", "message_kinds_converted"] {
            if m.counters.get(key).copied().unwrap_or(0) == 0 {
                unmet.push(format!("observation class `{}` never occurred", key));
            }
        }
        let kinds = m.sets.get("message_kinds").map(|s| s.len()).unwrap_or(0);
        if kinds < 14 {
            unmet.push(format!("only {}/14 payload-carrying message kinds converted", kinds));
        }
        unmet
    }
}

fn pv(v: (u32, u32)) -> ProtocolVersion {
    ProtocolVersion::new(v.0, v.1)
}

#[allow(clippy::too_many_arguments)]
pub fn check_convert(
    ctx: &Ctx,
    idx: u64,
    bytes: &[u8],
    class: &str,
    from: Option<(u32, u32)>,
    to: (u32, u32),
    r: &mut Rng,
    out: &mut Outcome,
) {
    out.eval();
    out.count(&format!("inputs[{}]", class), 1);
    let rp = |extra: serde_json::Value| {
        json!({"property": "C13", "seed": ctx.seed, "case": idx, "tier": ctx.tier.name(), "class": class,
               "from": from.map(|v| format!("{}.{}", v.0, v.1)), "to": format!("{}.{}", to.0, to.1),
               "bytes": hex(&bytes[..bytes.len().min(4096)]), "observed": extra})
    };
    if idx < 4 {
        out.sample(json!({"case": idx, "class": class, "from": from, "to": to, "bytes": hex_trunc(bytes, 48)}));
    }
    let Some(sv) = real::sv_from_bytes(bytes) else { return };
    let from_eff = from.unwrap_or((1, 20));
    let slice: &aldrin_core::SerializedValueSlice = &sv;
    let res = guarded(|| slice.convert(from.map(pv), pv(to)).map(|c| (matches!(c, Cow::Borrowed(_)), c.to_vec())));
    // the in-place variant must agree with the borrowing one
    {
        let mut owned = sv.clone();
        match (guarded(|| owned.convert(from.map(pv), pv(to)).map(|()| real::sv_bytes(&owned))), &res) {
            (Ok(Ok(a)), Ok(Ok((_, b)))) if a == *b => {}
            (Ok(Err(_)), Ok(Err(_))) => {}
            (Err(p), _) => out.violation(format!("panic:convert-mut:{}", panic_site(&p)), p, rp(json!(null))),
            (a, b) => out.violation("in-place-convert-differs", format!("in-place {:?} vs borrowing {:?}", a.map(|x| x.map(|y| y.len())), b.as_ref().map(|x| x.as_ref().map(|y| y.1.len()))), rp(json!(null))),
        }
    }
    let res = match res {
        Ok(r) => r,
        Err(p) => {
            out.violation(format!("panic:convert:{}", panic_site(&p)), p, rp(json!(null)));
            return;
        }
    };

    // ---- versions outside 1.14..1.20 ------------------------------------------------------
    if !supported(from_eff) || !supported(to) {
        out.count("invalid_version", 1);
        if !matches!(res, Err(ValueConversionError::InvalidVersion)) {
            out.violation("unsupported-version-not-rejected", format!("convert returned {:?}", res.as_ref().map(|x| x.1.len())), rp(json!(null)));
        }
        return;
    }
    if matches!(res, Err(ValueConversionError::InvalidVersion)) {
        out.violation("supported-version-rejected", "convert returned InvalidVersion for supported versions".to_string(), rp(json!(null)));
        return;
    }

    let reference = rv::ref_skip(bytes);
    let well_formed = matches!(&reference, Ok((_, used)) if *used == bytes.len());

    // ---- same or newer epoch: unchanged -----------------------------------------------------
    let down = epoch_of(from_eff) == Epoch::V2 && epoch_of(to) == Epoch::V1;
    if !down {
        match &res {
            Ok((borrowed, outb)) => {
                out.count("unchanged_ok", 1);
                if outb != bytes {
                    out.violation("same-or-newer-epoch-changed-bytes", format!("borrowed={}", borrowed), rp(json!({"out": hex_trunc(outb, 400)})));
                }
            }
            Err(e) => {
                if well_formed {
                    out.violation("same-or-newer-epoch-failed", format!("{:?}", e), rp(json!(null)));
                } else {
                    // the statement promises "returns the input unchanged" for every input
                    out.violation("same-or-newer-epoch-failed-ill-formed", format!("{:?}", e), rp(json!(null)));
                }
            }
        }
        messages(ctx, idx, bytes, from, to, &res, r, out, &rp);
        return;
    }

    // ---- real down-conversion ---------------------------------------------------------------
    match (&reference, &res) {
        (Ok((v, used)), Ok((_, outb))) if *used == bytes.len() => {
            out.count("down_converted_ok", 1);
            let in_kinds = rv::scan_kinds(bytes).unwrap_or_default();
            if in_kinds.iter().any(|k| rv::is_v2_kind(*k)) {
                out.distinct_case(fnv(&[bytes, &[from.is_some() as u8, to.1 as u8]].concat()));
            }
            // (i) no 1.20 container kind
            match rv::scan_kinds(outb) {
                Ok(kinds) => {
                    if let Some(k) = kinds.iter().find(|k| rv::is_v2_kind(**k)) {
                        out.violation("new-encoding-survives", format!("output still contains value kind {}", k), rp(json!({"out": hex_trunc(outb, 400)})));
                    }
                }
                Err(e) => out.violation("output-ill-formed", format!("reference scanner rejects the output: {:?}", e), rp(json!({"out": hex_trunc(outb, 400)}))),
            }
            // (ii) same meaning (reference decode; strings as bytes)
            match rv::ref_skip(outb) {
                Ok((v2, used2)) if used2 == outb.len() => {
                    if v2.normalize() != v.normalize() {
                        out.violation("meaning-changed", format!("input {} / output {}", v.render(300), v2.render(300)), rp(json!({"out": hex_trunc(outb, 400)})));
                    }
                }
                other => out.violation("output-ill-formed", format!("reference decode of output: {:?}", other.map(|x| x.1)), rp(json!({"out": hex_trunc(outb, 400)}))),
            }
            // real decode agrees when decodable
            if v.utf8_ok() {
                match guarded(|| real::decode(outb)) {
                    Ok(Some(Ok(val))) => {
                        if rv::from_aldrin(&val) != v.normalize() {
                            out.violation("meaning-changed-real-decode", "real decode of converted bytes differs".to_string(), rp(json!({"out": hex_trunc(outb, 400)})));
                        }
                    }
                    other => out.violation("converted-not-decodable", format!("{:?}", other.map(|x| x.map(|y| y.err()))), rp(json!({"out": hex_trunc(outb, 400)}))),
                }
            }
            // (iii) idempotent
            if let Some(sv2) = real::sv_from_bytes(outb) {
                let slice2: &aldrin_core::SerializedValueSlice = &sv2;
                match guarded(|| slice2.convert(from.map(pv), pv(to)).map(|c| c.to_vec())) {
                    Ok(Ok(again)) => {
                        if again != *outb {
                            out.violation("not-idempotent", "converting twice differs from converting once".to_string(), rp(json!({"once": hex_trunc(outb, 300), "twice": hex_trunc(&again, 300)})));
                        }
                    }
                    Ok(Err(e)) => out.violation("second-conversion-fails", format!("{:?}", e), rp(json!({"once": hex_trunc(outb, 300)}))),
                    Err(p) => out.violation(format!("panic:convert:{}", panic_site(&p)), p, rp(json!(null))),
                }
            }
        }
        (Ok((_, used)), Err(e)) if *used == bytes.len() => {
            out.violation("well-formed-rejected", format!("convert failed with {:?} on a well-formed value", e), rp(json!(null)));
        }
        (refres, Err(_)) => {
            out.count("ill_formed_rejected", 1);
            if matches!(refres, Err(rv::RefErr::TooDeep)) {
                out.count("too_deep_rejected", 1);
            }
        }
        (refres, Ok(_)) => {
            // not demanded by the statement (conversion of ill-formed input); recorded only
            out.count("ill_formed_accepted_recorded_only", 1);
            let _ = refres;
        }
    }
    messages(ctx, idx, bytes, from, to, &res, r, out, &rp);
}

#[allow(clippy::too_many_arguments)]
fn messages(
    _ctx: &Ctx,
    _idx: u64,
    bytes: &[u8],
    from: Option<(u32, u32)>,
    to: (u32, u32),
    expected: &Result<(bool, Vec<u8>), ValueConversionError>,
    r: &mut Rng,
    out: &mut Outcome,
    rp: &dyn Fn(serde_json::Value) -> serde_json::Value,
) {
    let Some(sv) = real::sv_from_bytes(bytes) else { return };
    let which = r.below(14);
    let u = uuid::Uuid::from_bytes(r.bytes(16).try_into().unwrap());
    let mut msg: Message = match which {
        0 => Connect { version: 14, value: sv }.into(),
        1 => ConnectReply::Ok(sv).into(),
        2 => CallFunction { serial: 1, service_cookie: ServiceCookie(u), function: 2, value: sv }.into(),
        3 => CallFunctionReply { serial: 1, result: if r.bool() { CallFunctionResult::Ok(sv) } else { CallFunctionResult::Err(sv) } }.into(),
        4 => EmitEvent { service_cookie: ServiceCookie(u), event: 3, value: sv }.into(),
        5 => SendItem { cookie: ChannelCookie(u), value: sv }.into(),
        6 => ItemReceived { cookie: ChannelCookie(u), value: sv }.into(),
        7 => Connect2 { major_version: 1, minor_version: 20, value: sv }.into(),
        8 => ConnectReply2 { result: ConnectResult::Ok(20), value: sv }.into(),
        9 => RegisterIntrospection { value: sv }.into(),
        10 => QueryIntrospectionReply { serial: 1, result: QueryIntrospectionResult::Ok(sv) }.into(),
        11 => CreateService2 { serial: 1, object_cookie: ObjectCookie(u), uuid: ServiceUuid(u), value: sv }.into(),
        12 => QueryServiceInfoReply { serial: 1, result: QueryServiceInfoResult::Ok(sv) }.into(),
        _ => CallFunction2 { serial: 1, service_cookie: ServiceCookie(u), function: 2, version: Some(1), value: sv }.into(),
    };
    let kind = format!("{:?}", msg.kind());
    out.seen("message_kinds", kind.clone());
    out.count("message_kinds_converted", 1);
    let res = guarded(|| {
        let r = msg.convert_value(from.map(pv), pv(to));
        (r, msg.value().map(|v| v.to_vec()))
    });
    match res {
        Err(p) => out.violation(format!("panic:convert-message:{}", panic_site(&p)), p, rp(json!({"message": kind}))),
        Ok((r, val)) => match (expected, r) {
            (Ok((_, exp)), Ok(())) => {
                if val.as_deref() != Some(exp.as_slice()) {
                    out.violation("message-convert-differs", format!("{}: payload after convert_value differs from value conversion", kind), rp(json!({"message": kind})));
                }
            }
            (Err(e1), Err(e2)) => {
                if *e1 != e2 {
                    out.count("message_error_kind_differs_recorded_only", 1);
                }
            }
            (a, b) => out.violation("message-convert-differs", format!("{}: value conversion {:?} vs message conversion {:?}", kind, a.as_ref().map(|x| x.1.len()), b), rp(json!({"message": kind}))),
        },
    }
    let _ = SerializedValue::empty;
}
