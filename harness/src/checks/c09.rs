//! C09: disconnect and shutdown cleanup. Fault enumeration: every sampled history is re-run once
//! per cut point x victim x way of ending x queue state; after every dequeued input the broker's
//! own books (snapshot hook) and the published statistics are compared with the model.

use super::Check;
use crate::bus::hist::{report, run_fault, run_history, FaultPlan, HistOpts, WAYS};
use crate::bus::profiles;
use crate::prng::Rng;
use crate::report::{Ctx, Outcome, Tier};

pub struct C09;

impl Check for C09 {
    fn id(&self) -> &'static str {
        "C09"
    }
    fn level(&self) -> &'static str {
        "fault_enumeration"
    }
    fn rule(&self) -> &'static str {
        "one evaluation = one run of a generated mixed history (objects, services, calls, events, channels, listeners, introspection) in which one connection is terminated at cut point k (every k of the history) in one of the four ways (client shutdown, transport closed, forced through the broker handle, connection task dropped), with the broker queue empty, with the victim's own requests queued ahead of the termination, or with the termination queued ahead of them; after every dequeued input: deliveries vs model, snapshot-hook sizes and cross-references vs model, statistics gauges vs model; then all connections end, the snapshot must be all-zero and shutdown_idle must complete. Plus whole histories ending in BrokerHandle::shutdown. distinct = hash of the event log of the run; non-trivial = the termination was injected"
    }
    fn assumptions(&self) -> Vec<String> {
        vec![
            "the snapshot hook (aldrin-broker feature verif-hooks) reports the broker's maps faithfully; it is read-only and taken inside the broker task".into(),
            "a dropped connection task is only noticed by the broker at its next delivery attempt (upstream test drop_conn_before_function_call); cleanup is demanded from that point".into(),
            "the executable bus model is the reading of the statement the verdict is relative to".into(),
        ]
    }
    fn total_cases(&self, tier: Tier) -> u64 {
        match tier {
            Tier::Quick => 96,
            Tier::Thorough => 12000,
        }
    }
    fn budget_s(&self, tier: Tier) -> u64 {
        match tier {
            Tier::Quick => 120,
            Tier::Thorough => 1500,
        }
    }
    fn run_case(&self, ctx: &Ctx, idx: u64, out: &mut Outcome) {
        // every third history puts the weight on the introspection registry
        let profile = if idx % 3 == 1 { profiles::mixed_intro() } else { profiles::mixed() };
        let mk = || Rng::derive(ctx.seed, 0xC09, idx);
        // every fourth history: no injected fault, ends with a broker shutdown instead
        if idx % 4 == 3 {
            let mut p = profile.clone();
            p.weights.extend([
                (crate::bus::gen::Op::DisconnectShutdown, 1),
                (crate::bus::gen::Op::DisconnectClose, 1),
                (crate::bus::gen::Op::DisconnectHandle, 1),
                (crate::bus::gen::Op::DisconnectDrop, 1),
            ]);
            let opts = HistOpts { books: true, teardown: false, broker_shutdown: true };
            let res = run_history(mk(), p, &opts, out);
            out.count("histories_ending_in_broker_shutdown", 1);
            report(&["*"], &res, out, idx, ctx.seed, 7);
            return;
        }
        // planning run: how many connections are alive at each cut point
        let mut scratch = Outcome::default();
        let plan_run = run_fault(mk(), profile.clone(), None, &mut scratch);
        if plan_run.res.mismatch.is_some() || !plan_run.res.panics.is_empty() {
            report(&["*"], &plan_run.res, out, idx, ctx.seed, 1);
            return;
        }
        out.count("histories", 1);
        let n = plan_run.alive_at.len();
        let stride = if ctx.tier == Tier::Quick { 1 } else { 1 };
        let mut k = 1;
        while k <= n {
            let alive = if k < n { plan_run.alive_at[k] } else { *plan_run.alive_at.last().unwrap_or(&0) };
            for victim in 0..alive.max(1) {
                for way in WAYS {
                    for queued in 0..3u8 {
                        if queued == 2 && !matches!(way, crate::bus::hist::Way::HandleShutdown | crate::bus::hist::Way::WriteFault) {
                            continue;
                        }
                        let plan = FaultPlan { k, victim, way, queued };
                        let fr = run_fault(mk(), profile.clone(), Some(plan), out);
                        if !fr.applicable {
                            continue;
                        }
                        out.count(&format!("fault_runs[{:?}/queued={}]", way, queued), 1);
                        out.max("cut_points_per_history", n as u64);
                        let case_id = idx * 1_000_000 + (k as u64) * 1000 + (victim as u64) * 100 + (way as u64) * 10 + queued as u64;
                        report(&["*"], &fr.res, out, case_id, ctx.seed, 997);
                        if !fr.res.panics.is_empty() || fr.res.mismatch.is_some() {
                            // one witness per history is enough
                            return;
                        }
                    }
                }
            }
            k += stride;
        }
    }
    /// A fifth way for a connection to end: its own task fails while forwarding a message (the
    /// payload cannot be re-encoded for its version). Whatever one thinks of that cause (it is
    /// C11's known finding), the broker must still release the connection.
    fn once(&self, ctx: &Ctx, out: &mut Outcome) {
        use aldrin_core::message::*;
        for vv in [14u32, 18] {
            for kind in ["CallFunction", "EmitEvent", "ItemReceived"] {
                let Ok(s) = super::c11::setup(vv, 20) else { continue };
                let super::c11::Setup { mut rig, victim, abuser, svc, chan_to_victim, .. } = s;
                let svc2 = rig.model().svcs.values().find(|x| x.owner == abuser).map(|x| x.cookie).unwrap();
                let msg: Message = match kind {
                    "CallFunction" => CallFunction { serial: 900, service_cookie: svc, function: 0, value: super::c11::ill_formed() }.into(),
                    "EmitEvent" => EmitEvent { service_cookie: svc2, event: 0, value: super::c11::ill_formed() }.into(),
                    _ => SendItem { cookie: chan_to_victim, value: super::c11::ill_formed() }.into(),
                };
                let real = rig.cands[0].bind.input_to_real(&msg);
                rig.conns[abuser].end.push(real);
                let t = rig.conns[abuser].task;
                rig.dx.run_task(t);
                rig.settle();
                out.eval();
                out.count("connection_task_error_probes", 1);
                if !rig.conns[victim].end.peer_closed() {
                    out.count("connection_task_error_probe_recipient_survived", 1);
                    rig.dx.shutdown();
                    continue;
                }
                // the recipient's task has ended by itself: it must be gone from the books
                #[cfg(feature = "hooks")]
                if let Some(snap) = rig.snapshot() {
                    let abuser_objs = 1;
                    if snap.conns != 1 || snap.objs != abuser_objs || !snap.inconsistencies.is_empty() {
                        out.violation(
                            "ended-connection-not-released",
                            format!("the connection task of a 1.{} connection ended with an error while forwarding {}, but the broker still holds {} connections / {} objects / {} calls (inconsistencies: {:?})", vv, kind, snap.conns, snap.objs, snap.function_calls, snap.inconsistencies),
                            serde_json::json!({"probe": kind, "victim_version": vv, "seed": ctx.seed}),
                        );
                    }
                }
                rig.dx.shutdown();
            }
        }
    }
    fn gates(&self, _tier: Tier, merged: &Outcome) -> Vec<String> {
        let mut g = Vec::new();
        for w in WAYS {
            for q in 0..2 {
                let key = format!("fault_runs[{:?}/queued={}]", w, q);
                if merged.counters.get(&key).copied().unwrap_or(0) == 0 {
                    g.push(format!("no fault run for {}", key));
                }
            }
        }
        if merged.counters.get("snapshots").copied().unwrap_or(0) == 0 {
            g.push("the snapshot hook was never consulted".into());
        }
        g
    }
}
