//! C12: version negotiation grid, feature gating grid, cross-version payload interop for all 49
//! version pairs, and a passive version/epoch monitor over mixed-version histories.

use super::Check;
use crate::bus::gen::{pool_uuid, Gen};
use crate::bus::hist::{report, run_history, HistOpts};
use crate::bus::model::Input;
use crate::bus::profiles;
use crate::bus::rig::{Mismatch, Rig};
use crate::prng::Rng;
use crate::report::{Ctx, Outcome, Tier};
use aldrin_core::message::*;
use aldrin_core::{ChannelEndWithCapacity, ObjectUuid, SerializedValue, ServiceCookie, ServiceInfo, ServiceUuid, TypeId};
use serde_json::json;

pub struct C12;

fn gated(serial: u32, sc: ServiceCookie, payload: SerializedValue) -> Vec<(u32, &'static str, Message)> {
    let t = TypeId(pool_uuid(9, 0));
    let mut ids = std::collections::HashSet::new();
    ids.insert(t);
    vec![
        (16, "AbortFunctionCall", AbortFunctionCall { serial }.into()),
        (17, "RegisterIntrospection", RegisterIntrospection { value: SerializedValue::serialize(&ids).unwrap() }.into()),
        (17, "QueryIntrospection", QueryIntrospection { serial, type_id: t }.into()),
        (17, "QueryIntrospectionReply", QueryIntrospectionReply { serial, result: QueryIntrospectionResult::Unavailable }.into()),
        (17, "CreateService2", CreateService2 { serial, object_cookie: aldrin_core::ObjectCookie(pool_uuid(7, 7)), uuid: ServiceUuid(pool_uuid(2, 0)), value: SerializedValue::serialize(ServiceInfo::new(1)).unwrap() }.into()),
        (17, "QueryServiceInfo", QueryServiceInfo { serial, cookie: sc }.into()),
        (18, "SubscribeService", SubscribeService { serial, service_cookie: sc }.into()),
        (18, "UnsubscribeService", UnsubscribeService { service_cookie: sc }.into()),
        (18, "SubscribeAllEvents", SubscribeAllEvents { serial: Some(serial), service_cookie: sc }.into()),
        (18, "UnsubscribeAllEvents", UnsubscribeAllEvents { serial: Some(serial), service_cookie: sc }.into()),
        (19, "CallFunction2", CallFunction2 { serial, service_cookie: sc, function: 0, version: None, value: payload }.into()),
    ]
}

fn viol(out: &mut Outcome, sig: String, detail: String, replay: serde_json::Value) {
    out.violation(sig, detail, replay);
}

impl C12 {
    fn handshake_grid(&self, out: &mut Outcome) {
        let mut minors: Vec<u32> = (0..=25).collect();
        minors.extend([26, 100, 0x7fff_ffff, u32::MAX]);
        for legacy in [true, false] {
            for major in [0u32, 1, 2, u32::MAX] {
                if legacy && major != 1 {
                    continue;
                }
                for &minor in &minors {
                    let mut rig = Rig::new();
                    let (reply, idx) = rig.connect_raw(major, minor, legacy);
                    out.eval();
                    out.count("handshakes", 1);
                    let expect_ok: Option<u32> = if legacy {
                        if minor == 14 {
                            Some(14)
                        } else {
                            None
                        }
                    } else if major == 1 && minor >= 14 {
                        Some(minor.min(20))
                    } else {
                        None
                    };
                    let got = match &reply {
                        Some(Message::ConnectReply(ConnectReply::Ok(_))) if legacy => Ok(14),
                        Some(Message::ConnectReply2(ConnectReply2 { result: ConnectResult::Ok(v), .. })) if !legacy => Ok(*v),
                        Some(Message::ConnectReply(ConnectReply::IncompatibleVersion(v))) if legacy => Err(format!("incompatible({})", v)),
                        Some(Message::ConnectReply2(ConnectReply2 { result: ConnectResult::IncompatibleVersion, .. })) if !legacy => Err("incompatible".into()),
                        other => Err(format!("unexpected reply {:?}", other)),
                    };
                    let ok = match (&expect_ok, &got) {
                        (Some(e), Ok(g)) => e == g,
                        (None, Err(s)) => s.starts_with("incompatible"),
                        _ => false,
                    };
                    out.seen("handshake_outcomes", format!("{}:{}", if legacy { "Connect" } else { "Connect2" }, match &got { Ok(v) => format!("ok(1.{})", v), Err(_) => "incompatible".into() }));
                    if !ok {
                        viol(
                            out,
                            format!("handshake:{}", if legacy { "Connect" } else { "Connect2" }),
                            format!("{} requesting {}.{}: expected {:?}, got {:?}", if legacy { "Connect" } else { "Connect2" }, major, minor, expect_ok, got),
                            json!({"legacy": legacy, "major": major, "minor": minor}),
                        );
                    }
                    // a rejected peer must not have become a connection
                    if expect_ok.is_none() && idx.is_some() {
                        viol(out, "handshake:accepted".into(), "rejected handshake produced a connection".into(), json!({"legacy": legacy, "major": major, "minor": minor}));
                    }
                    for (task, p) in rig.dx.panics.clone() {
                        viol(out, format!("panic:{}", crate::guard::panic_site(&p)), format!("{}: {}", task, p), json!({"legacy": legacy, "major": major, "minor": minor}));
                    }
                    rig.dx.shutdown();
                }
            }
        }
    }

    fn gating_grid(&self, ctx: &Ctx, out: &mut Outcome) {
        let mut rng = Rng::derive(ctx.seed, 0xC12, 1);
        for requested in [14u32, 15, 16, 17, 18, 19, 20, 21, 25, u32::MAX] {
            let negotiated = requested.min(20);
            let n = gated(0, ServiceCookie(pool_uuid(7, 1)), SerializedValue::serialize(()).unwrap()).len();
            for gi in 0..n {
                let mut rig = Rig::new();
                let (_, idx) = rig.connect_raw(1, requested, false);
                let Some(c) = idx else {
                    viol(out, "gating:handshake".into(), format!("Connect2 1.{} was not accepted", requested), json!({"requested": requested}));
                    continue;
                };
                let mut gen = Gen::new(Rng::new(rng.next_u64()), profiles::versions());
                let payload = gen.payload(negotiated);
                let (minv, name, msg) = gated(5, ServiceCookie(pool_uuid(7, 1)), payload).remove(gi);
                out.eval();
                out.count("gating_cells", 1);
                let r = rig.burst(&[Input::Msg(c, msg)]);
                let closed = rig.conns[c].end.peer_closed();
                let should_close = negotiated < minv || name == "QueryIntrospectionReply";
                out.seen("gating_observed", format!("{}@1.{}:{}", name, negotiated, if closed { "closed" } else { "served" }));
                if let Err(m) = r {
                    viol(out, format!("gating:{}:{}", name, m.what), format!("negotiated 1.{} (requested 1.{}), {}: {}", negotiated, requested, name, m.detail), json!({"requested": requested, "kind": name}));
                } else if closed != should_close {
                    viol(out, format!("gating:{}", name), format!("negotiated 1.{}: {} introduced in 1.{}: closed={}", negotiated, name, minv, closed), json!({"requested": requested, "kind": name}));
                }
                // the broker keeps serving others
                let probe = rig.connect(20);
                if let Err(m) = rig.burst(&[Input::Msg(probe, Sync { serial: 1 }.into())]) {
                    viol(out, "gating:probe".into(), format!("probe not served after {}: {}", name, m.detail), json!({"requested": requested, "kind": name}));
                }
                rig.dx.shutdown();
            }
        }
    }

    /// All four payload paths between a sender of version `s` and a receiver of version `r`.
    fn interop(&self, s: u32, r: u32, rng: Rng, out: &mut Outcome) -> Result<(), Mismatch> {
        let mut p = profiles::versions();
        p.payload_depth = 8;
        let mut gen = Gen::new(rng, p);
        let mut rig = Rig::new();
        let a = rig.connect(s);
        let b = rig.connect(r);
        // b owns a service, a calls it (call args a -> b), b replies (reply b -> a)
        rig.burst(&[Input::Msg(b, CreateObject { serial: 1, uuid: ObjectUuid(pool_uuid(1, 0)) }.into())])?;
        let oc = rig.model().objs.values().next().unwrap().cookie;
        rig.burst(&[Input::Msg(b, CreateService { serial: 2, object_cookie: oc, uuid: ServiceUuid(pool_uuid(2, 0)), version: 1 }.into())])?;
        let sc = rig.model().svcs.values().next().unwrap().cookie;
        for i in 0..3u32 {
            let call: Message = if s >= 19 && i % 2 == 1 {
                CallFunction2 { serial: 10 + i, service_cookie: sc, function: i, version: Some(i), value: gen.payload(s) }.into()
            } else {
                CallFunction { serial: 10 + i, service_cookie: sc, function: i, value: gen.payload(s) }.into()
            };
            rig.burst(&[Input::Msg(a, call)])?;
            let cs = rig.model().calls.values().next().unwrap().callee_serial;
            let result = if i == 1 { CallFunctionResult::Err(gen.payload(r)) } else { CallFunctionResult::Ok(gen.payload(r)) };
            rig.burst(&[Input::Msg(b, CallFunctionReply { serial: cs, result }.into())])?;
            out.count("interop_payloads", 2);
        }
        // event b -> a
        rig.burst(&[Input::Msg(a, SubscribeEvent { serial: Some(20), service_cookie: sc, event: 3 }.into())])?;
        for _ in 0..2 {
            rig.burst(&[Input::Msg(b, EmitEvent { service_cookie: sc, event: 3, value: gen.payload(r) }.into())])?;
            out.count("interop_payloads", 1);
        }
        // items a -> b
        rig.burst(&[Input::Msg(a, CreateChannel { serial: 21, end: ChannelEndWithCapacity::Sender }.into())])?;
        let ch = rig.model().chans.values().next().unwrap().cookie;
        rig.burst(&[Input::Msg(b, ClaimChannelEnd { serial: 3, cookie: ch, end: ChannelEndWithCapacity::Receiver(6) }.into())])?;
        for _ in 0..3 {
            rig.burst(&[Input::Msg(a, SendItem { cookie: ch, value: gen.payload(s) }.into())])?;
            out.count("interop_payloads", 1);
        }
        // abort path (re-encoded for the callee's version)
        if s >= 16 {
            rig.burst(&[Input::Msg(a, CallFunction { serial: 30, service_cookie: sc, function: 9, value: gen.payload(s) }.into())])?;
            rig.burst(&[Input::Msg(a, AbortFunctionCall { serial: 30 }.into())])?;
        }
        for v in &rig.version_violations {
            out.violation("version-monitor", v.clone(), json!({"sender": s, "receiver": r}));
        }
        for (task, p) in rig.dx.panics.clone() {
            out.violation(format!("panic:{}", crate::guard::panic_site(&p)), format!("{}: {}", task, p), json!({"sender": s, "receiver": r}));
        }
        for k in &rig.kinds_delivered {
            out.seen("kinds_delivered", k.clone());
        }
        rig.dx.shutdown();
        Ok(())
    }
}

impl Check for C12 {
    fn id(&self) -> &'static str {
        "C12"
    }
    fn level(&self) -> &'static str {
        "exploration"
    }
    fn rule(&self) -> &'static str {
        "fixed grids: handshake (Connect x minor 0..26,100,2^31-1,2^32-1; Connect2 x major 0,1,2,2^32-1 x the same minors) and gating (10 requested versions x 11 gated kinds, each on a fresh connection, closed iff negotiated < introduction); then cases: even case = one ordered (sender,receiver) version pair out of the 49 with generated payloads of depth <= 8 through call arguments, replies (Ok/Err), events, items and an abort, compared by value with the bus model; odd case = a mixed-version history (versions profile) under the passive monitor (no message kind newer than the receiver's version, no 1.20 container encoding delivered below 1.20). distinct = (pair, payload seed) resp. hash of the event log"
    }
    fn assumptions(&self) -> Vec<String> {
        vec![
            "gating table = the versions at which the broker code and CHANGELOG introduce each message kind (1.16 abort, 1.17 introspection/CreateService2/QueryServiceInfo, 1.18 service and all-events subscriptions, 1.19 CallFunction2)".into(),
            "payload meaning is compared through the harness reference decoder".into(),
        ]
    }
    fn total_cases(&self, tier: Tier) -> u64 {
        match tier {
            Tier::Quick => 49 * 2 * 40,
            Tier::Thorough => 49 * 2 * 20000,
        }
    }
    fn once(&self, ctx: &Ctx, out: &mut Outcome) {
        self.handshake_grid(out);
        self.gating_grid(ctx, out);
    }
    fn run_case(&self, ctx: &Ctx, idx: u64, out: &mut Outcome) {
        let rng = Rng::derive(ctx.seed, 0xC12, idx + 10);
        if idx % 2 == 0 {
            let pair = (idx / 2) % 49;
            let (s, r) = (14 + (pair / 7) as u32, 14 + (pair % 7) as u32);
            out.eval();
            out.distinct_case(crate::prng::fnv(format!("{}-{}-{}", s, r, idx).as_bytes()));
            out.seen("version_pairs", format!("{}->{}", s, r));
            if idx < 6 {
                out.sample(json!({"interop_pair": format!("1.{} -> 1.{}", s, r), "paths": ["call args", "reply ok/err", "event", "item", "abort"]}));
            }
            if let Err(m) = self.interop(s, r, rng, out) {
                out.violation(format!("interop:{}:{}", m.what, m.kind), format!("sender 1.{} receiver 1.{}: {}", s, r, m.detail), json!({"case": idx, "seed": ctx.seed, "sender": s, "receiver": r}));
            }
        } else {
            let res = run_history(rng, profiles::versions(), &HistOpts::default(), out);
            let mut own: Vec<&str> = vec!["C12"];
            if let Some(m) = &res.mismatch {
                if m.what.starts_with("connection-") {
                    own.push("*");
                }
            }
            report(&own, &res, out, idx, ctx.seed, 193);
        }
    }
    fn gates(&self, _tier: Tier, merged: &Outcome) -> Vec<String> {
        let mut g = Vec::new();
        if merged.sets.get("version_pairs").map(|s| s.len()).unwrap_or(0) < 49 {
            g.push("not all 49 version pairs were exercised".into());
        }
        if merged.counters.get("handshakes").copied().unwrap_or(0) < 100 {
            g.push("handshake grid incomplete".into());
        }
        if merged.counters.get("gating_cells").copied().unwrap_or(0) < 110 {
            g.push("gating grid incomplete".into());
        }
        g
    }
}
