//! Monitors around a call into the subject: panic capture and allocation accounting.

use std::alloc::{GlobalAlloc, Layout, System};
use std::cell::{Cell, RefCell};
use std::panic::{self, AssertUnwindSafe};
use std::sync::Once;

thread_local! {
    static LAST_PANIC: RefCell<Option<String>> = const { RefCell::new(None) };
    static TRACK: Cell<bool> = const { Cell::new(false) };
    static CUR: Cell<usize> = const { Cell::new(0) };
    static PEAK: Cell<usize> = const { Cell::new(0) };
    static TOTAL: Cell<usize> = const { Cell::new(0) };
}

static HOOK: Once = Once::new();

pub fn install_panic_hook() {
    HOOK.call_once(|| {
        panic::set_hook(Box::new(|info| {
            let loc = info
                .location()
                .map(|l| format!("{}:{}", l.file(), l.line()))
                .unwrap_or_else(|| "?".into());
            let msg = if let Some(s) = info.payload().downcast_ref::<&str>() {
                (*s).to_string()
            } else if let Some(s) = info.payload().downcast_ref::<String>() {
                s.clone()
            } else {
                "<non-string panic>".to_string()
            };
            LAST_PANIC.with(|p| *p.borrow_mut() = Some(format!("{} @ {}", msg, loc)));
        }));
    });
}

/// Set by the child-process driver (native runs only): calls into the subject are watched by
/// the hang watchdog, like polls of the deterministic executor.
pub static WATCH_CALLS: std::sync::atomic::AtomicBool = std::sync::atomic::AtomicBool::new(false);

/// Runs `f`; a panic is returned as Err("message @ file:line"). A call that never returns is
/// noticed by the watchdog thread of the child process (heartbeat + "inside a call" flag).
pub fn guarded<T>(f: impl FnOnce() -> T) -> Result<T, String> {
    use std::sync::atomic::Ordering;
    install_panic_hook();
    LAST_PANIC.with(|p| *p.borrow_mut() = None);
    let watch = WATCH_CALLS.load(Ordering::Relaxed);
    let mut prev = false;
    if watch {
        crate::bus::dx::HEARTBEAT.fetch_add(1, Ordering::Relaxed);
        prev = crate::bus::dx::IN_POLL.swap(true, Ordering::SeqCst);
        if !prev {
            if let Ok(mut g) = crate::bus::dx::CURRENT_TASK.lock() {
                *g = "call-into-the-subject".to_string();
            }
        }
    }
    let r = panic::catch_unwind(AssertUnwindSafe(f));
    if watch {
        crate::bus::dx::HEARTBEAT.fetch_add(1, Ordering::Relaxed);
        crate::bus::dx::IN_POLL.store(prev, Ordering::SeqCst);
    }
    match r {
        Ok(v) => Ok(v),
        Err(_) => Err(LAST_PANIC
            .with(|p| p.borrow_mut().take())
            .unwrap_or_else(|| "<panic without message>".into())),
    }
}

/// Strips the part of a panic location that varies with checkout location.
pub fn panic_site(msg: &str) -> String {
    match msg.rfind(" @ ") {
        Some(i) => {
            let loc = &msg[i + 3..];
            let loc = match loc.find("/repo/") {
                Some(j) => &loc[j + 6..],
                None => loc,
            };
            loc.to_string()
        }
        None => "?".to_string(),
    }
}

pub struct CountingAlloc;

unsafe impl GlobalAlloc for CountingAlloc {
    unsafe fn alloc(&self, layout: Layout) -> *mut u8 {
        let p = unsafe { System.alloc(layout) };
        if !p.is_null() {
            note_alloc(layout.size());
        }
        p
    }
    unsafe fn dealloc(&self, ptr: *mut u8, layout: Layout) {
        unsafe { System.dealloc(ptr, layout) };
        note_free(layout.size());
    }
    unsafe fn alloc_zeroed(&self, layout: Layout) -> *mut u8 {
        let p = unsafe { System.alloc_zeroed(layout) };
        if !p.is_null() {
            note_alloc(layout.size());
        }
        p
    }
    unsafe fn realloc(&self, ptr: *mut u8, layout: Layout, new_size: usize) -> *mut u8 {
        let p = unsafe { System.realloc(ptr, layout, new_size) };
        if !p.is_null() {
            note_free(layout.size());
            note_alloc(new_size);
        }
        p
    }
}

fn note_alloc(n: usize) {
    let _ = TRACK.try_with(|t| {
        if t.get() {
            let _ = CUR.try_with(|c| {
                let v = c.get().saturating_add(n);
                c.set(v);
                let _ = PEAK.try_with(|p| {
                    if v > p.get() {
                        p.set(v)
                    }
                });
            });
            let _ = TOTAL.try_with(|c| c.set(c.get().saturating_add(n)));
        }
    });
}

fn note_free(n: usize) {
    let _ = TRACK.try_with(|t| {
        if t.get() {
            let _ = CUR.try_with(|c| c.set(c.get().saturating_sub(n)));
        }
    });
}

/// Runs `f` with allocation tracking on this thread; returns (result, peak live bytes above the
/// level at entry, total bytes requested).
pub fn measured<T>(f: impl FnOnce() -> T) -> (T, usize, usize) {
    CUR.with(|c| c.set(0));
    PEAK.with(|c| c.set(0));
    TOTAL.with(|c| c.set(0));
    TRACK.with(|t| t.set(true));
    let r = f();
    TRACK.with(|t| t.set(false));
    (r, PEAK.with(|c| c.get()), TOTAL.with(|c| c.get()))
}
