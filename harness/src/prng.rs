//! Harness PRNG: SplitMix64 seeding a xoshiro256**. No `rand`, so the stream is fixed by
//! `VERIF_SEED` alone and identical on every build.

#[derive(Clone, Debug)]
pub struct Rng {
    s: [u64; 4],
}

fn splitmix(x: &mut u64) -> u64 {
    *x = x.wrapping_add(0x9E3779B97F4A7C15);
    let mut z = *x;
    z = (z ^ (z >> 30)).wrapping_mul(0xBF58476D1CE4E5B9);
    z = (z ^ (z >> 27)).wrapping_mul(0x94D049BB133111EB);
    z ^ (z >> 31)
}

impl Rng {
    pub fn new(seed: u64) -> Self {
        let mut x = seed;
        let s = [
            splitmix(&mut x),
            splitmix(&mut x),
            splitmix(&mut x),
            splitmix(&mut x),
        ];
        Self { s }
    }

    /// Derives an independent stream (for shard i, case j, ...).
    pub fn derive(seed: u64, a: u64, b: u64) -> Self {
        let mut x = seed ^ a.wrapping_mul(0xA24BAED4963EE407) ^ b.wrapping_mul(0x9FB21C651E98DF25);
        let y = splitmix(&mut x);
        Self::new(y ^ a.rotate_left(17) ^ b.rotate_left(41))
    }

    pub fn next_u64(&mut self) -> u64 {
        let result = self.s[1].wrapping_mul(5).rotate_left(7).wrapping_mul(9);
        let t = self.s[1] << 17;
        self.s[2] ^= self.s[0];
        self.s[3] ^= self.s[1];
        self.s[1] ^= self.s[2];
        self.s[0] ^= self.s[3];
        self.s[2] ^= t;
        self.s[3] = self.s[3].rotate_left(45);
        result
    }

    pub fn next_u32(&mut self) -> u32 {
        (self.next_u64() >> 32) as u32
    }

    /// Uniform in 0..n (n > 0).
    pub fn below(&mut self, n: usize) -> usize {
        debug_assert!(n > 0);
        ((self.next_u64() >> 11) % (n as u64)) as usize
    }

    /// Uniform in lo..=hi.
    pub fn range(&mut self, lo: usize, hi: usize) -> usize {
        lo + self.below(hi - lo + 1)
    }

    pub fn chance(&mut self, num: usize, den: usize) -> bool {
        self.below(den) < num
    }

    pub fn bool(&mut self) -> bool {
        self.next_u64() & 1 == 1
    }

    pub fn pick<'a, T>(&mut self, xs: &'a [T]) -> &'a T {
        &xs[self.below(xs.len())]
    }

    pub fn bytes(&mut self, n: usize) -> Vec<u8> {
        let mut v = Vec::with_capacity(n);
        while v.len() < n {
            let x = self.next_u64().to_le_bytes();
            let take = (n - v.len()).min(8);
            v.extend_from_slice(&x[..take]);
        }
        v
    }

    pub fn fill(&mut self, out: &mut [u8]) {
        let b = self.bytes(out.len());
        out.copy_from_slice(&b);
    }

    pub fn shuffle<T>(&mut self, xs: &mut [T]) {
        for i in (1..xs.len()).rev() {
            let j = self.below(i + 1);
            xs.swap(i, j);
        }
    }
}

/// FNV-1a 64 for hashing cases (distinct counting).
pub fn fnv(bytes: &[u8]) -> u64 {
    let mut h: u64 = 0xcbf29ce484222325;
    for b in bytes {
        h ^= *b as u64;
        h = h.wrapping_mul(0x100000001b3);
    }
    h
}
