//! vlab: runtime-monitoring laboratory for aldrin (see /verif/DESIGN.md).
#![allow(clippy::all)]

pub mod bus;
pub mod checks;
pub mod codec;
pub mod guard;
pub mod prng;
pub mod report;
pub mod schema;

#[global_allocator]
static ALLOC: guard::CountingAlloc = guard::CountingAlloc;

/// Root of the aldrin checkout the checks read files from (schemas, Cargo.lock, path of the
/// generated-code corpus' dependency). `/repo` unless `VERIF_REPO` says otherwise; the parallel
/// seeded-change matrix (`tools/seed_matrix_par.sh`) points it at a scratch worktree.
pub fn repo_root() -> String {
    std::env::var("VERIF_REPO").unwrap_or_else(|_| "/repo".into())
}
