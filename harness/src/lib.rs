//! vlab: runtime-monitoring laboratory for aldrin (see /verif/DESIGN.md).
#![allow(clippy::all)]

pub mod bus;
pub mod checks;
pub mod codec;
pub mod guard;
pub mod prng;
pub mod report;
pub mod schema;

#[global_allocator]
static ALLOC: guard::CountingAlloc = guard::CountingAlloc;
