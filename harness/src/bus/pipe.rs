//! Harness transport: an in-memory duplex of `Message` values with optional FIFO bound, fault
//! injection at the k-th ready transport operation, and direct access for a protocol-level peer
//! (RawConn). Uses only the public `AsyncTransport` trait of aldrin-core.

use aldrin_core::message::Message;
use aldrin_core::transport::AsyncTransport;
use std::cell::RefCell;
use std::collections::VecDeque;
use std::pin::Pin;
use std::rc::Rc;
use std::task::{Context, Poll, Waker};

#[derive(Debug, Clone, Copy, PartialEq, Eq)]
pub enum PipeError {
    Disconnected,
    Injected,
}

impl std::fmt::Display for PipeError {
    fn fmt(&self, f: &mut std::fmt::Formatter) -> std::fmt::Result {
        write!(f, "{:?}", self)
    }
}

impl std::error::Error for PipeError {}

#[derive(Debug, Clone, Copy, PartialEq, Eq)]
pub enum FaultKind {
    /// the k-th ready operation (whatever it is) fails, and so does every later one
    Error,
    /// from the k-th operation on the end behaves as if the peer had closed the stream:
    /// receives report end of stream, sends/flushes report Disconnected
    Eof,
    /// half-open: from the first send or flush at or after index k the sending side fails,
    /// while the receiving side keeps working (and stays silent if nothing arrives)
    SendOnly,
}

#[derive(Default)]
pub struct EndState {
    /// messages travelling *towards* this end
    pub inbox: VecDeque<Message>,
    /// bound on the inbox of this end (None = unbounded)
    pub cap: Option<usize>,
    /// this end was dropped or closed
    pub closed: bool,
    rx_waker: Option<Waker>,
    /// waker of the *peer* blocked on sending into this end's full inbox
    tx_waker: Option<Waker>,
    /// ready operations performed by this end so far
    pub ops: u64,
    pub op_log: Vec<u8>,
    pub fault: Option<(u64, FaultKind)>,
    pub broken: Option<FaultKind>,
    pub log_ops: bool,
}

#[derive(Default)]
pub struct Shared {
    pub ends: [EndState; 2],
}

pub struct End {
    pub sh: Rc<RefCell<Shared>>,
    pub side: usize,
}

/// Creates a duplex; `cap[i]` bounds the FIFO towards end i.
pub fn duplex(cap: [Option<usize>; 2]) -> (End, End) {
    let sh = Rc::new(RefCell::new(Shared::default()));
    sh.borrow_mut().ends[0].cap = cap[0];
    sh.borrow_mut().ends[1].cap = cap[1];
    (End { sh: sh.clone(), side: 0 }, End { sh, side: 1 })
}

impl End {
    pub fn handle(&self) -> Rc<RefCell<Shared>> {
        self.sh.clone()
    }

    // ---- direct (non-async) use by the harness acting as a protocol-level peer ----

    /// Pushes a message towards the peer, ignoring the bound. False if the peer is gone.
    pub fn push(&self, msg: Message) -> bool {
        let mut sh = self.sh.borrow_mut();
        let peer = &mut sh.ends[1 - self.side];
        if peer.closed {
            return false;
        }
        peer.inbox.push_back(msg);
        if let Some(w) = peer.rx_waker.take() {
            w.wake();
        }
        true
    }

    /// Takes everything that has arrived at this end.
    pub fn drain(&self) -> Vec<Message> {
        let mut sh = self.sh.borrow_mut();
        let me = &mut sh.ends[self.side];
        let v: Vec<Message> = me.inbox.drain(..).collect();
        if let Some(w) = me.tx_waker.take() {
            w.wake();
        }
        v
    }

    pub fn pending_in(&self) -> usize {
        self.sh.borrow().ends[self.side].inbox.len()
    }

    pub fn peer_closed(&self) -> bool {
        self.sh.borrow().ends[1 - self.side].closed
    }

    /// Closes this end (what dropping it does), waking the peer.
    pub fn close(&self) {
        close_side(&self.sh, self.side);
    }

    pub fn set_fault(&self, at: u64, kind: FaultKind) {
        self.sh.borrow_mut().ends[self.side].fault = Some((at, kind));
    }
}

fn close_side(sh: &Rc<RefCell<Shared>>, side: usize) {
    let mut sh = sh.borrow_mut();
    sh.ends[side].closed = true;
    // the peer may be blocked receiving (its rx waker is stored in its own state) or sending
    // (its tx waker is stored in *our* state)
    let w1 = sh.ends[1 - side].rx_waker.take();
    let w2 = sh.ends[side].tx_waker.take();
    drop(sh);
    if let Some(w) = w1 {
        w.wake();
    }
    if let Some(w) = w2 {
        w.wake();
    }
}

impl Drop for End {
    fn drop(&mut self) {
        close_side(&self.sh, self.side);
    }
}

impl End {
    /// Accounts one ready operation; returns an injected failure if one is due.
    fn op(&self, code: u8) -> Option<FaultKind> {
        let mut sh = self.sh.borrow_mut();
        let me = &mut sh.ends[self.side];
        if let Some(k) = me.broken {
            if k != FaultKind::SendOnly || code != b'r' {
                return Some(k);
            }
        }
        if let Some((at, kind)) = me.fault {
            if me.broken.is_none() && ((kind != FaultKind::SendOnly && me.ops == at) || (kind == FaultKind::SendOnly && me.ops >= at && code != b'r')) {
                me.broken = Some(kind);
                return Some(kind);
            }
        }
        me.ops += 1;
        if me.log_ops {
            me.op_log.push(code);
        }
        None
    }
}

impl AsyncTransport for End {
    type Error = PipeError;

    fn receive_poll(self: Pin<&mut Self>, cx: &mut Context) -> Poll<Result<Message, PipeError>> {
        let this = self.get_mut();
        let (has, peer_closed, broken) = {
            let sh = this.sh.borrow();
            (!sh.ends[this.side].inbox.is_empty(), sh.ends[1 - this.side].closed, sh.ends[this.side].broken)
        };
        if let Some(k) = broken.filter(|k| *k != FaultKind::SendOnly) {
            return Poll::Ready(Err(match k {
                FaultKind::Error | FaultKind::SendOnly => PipeError::Injected,
                FaultKind::Eof => PipeError::Disconnected,
            }));
        }
        if has {
            if let Some(k) = this.op(b'r') {
                return Poll::Ready(Err(match k {
                    FaultKind::Error | FaultKind::SendOnly => PipeError::Injected,
                    FaultKind::Eof => PipeError::Disconnected,
                }));
            }
            let mut sh = this.sh.borrow_mut();
            let me = &mut sh.ends[this.side];
            let msg = me.inbox.pop_front().unwrap();
            let w = me.tx_waker.take();
            drop(sh);
            if let Some(w) = w {
                w.wake();
            }
            Poll::Ready(Ok(msg))
        } else if peer_closed {
            Poll::Ready(Err(PipeError::Disconnected))
        } else {
            this.sh.borrow_mut().ends[this.side].rx_waker = Some(cx.waker().clone());
            Poll::Pending
        }
    }

    fn send_poll_ready(self: Pin<&mut Self>, cx: &mut Context) -> Poll<Result<(), PipeError>> {
        let this = self.get_mut();
        let mut sh = this.sh.borrow_mut();
        if let Some(k) = sh.ends[this.side].broken {
            return Poll::Ready(Err(match k {
                FaultKind::Error | FaultKind::SendOnly => PipeError::Injected,
                FaultKind::Eof => PipeError::Disconnected,
            }));
        }
        let peer = &mut sh.ends[1 - this.side];
        if peer.closed {
            return Poll::Ready(Err(PipeError::Disconnected));
        }
        match peer.cap {
            Some(c) if peer.inbox.len() >= c => {
                peer.tx_waker = Some(cx.waker().clone());
                Poll::Pending
            }
            _ => Poll::Ready(Ok(())),
        }
    }

    fn send_start(self: Pin<&mut Self>, msg: Message) -> Result<(), PipeError> {
        let this = self.get_mut();
        if let Some(k) = this.op(b's') {
            return Err(match k {
                FaultKind::Error | FaultKind::SendOnly => PipeError::Injected,
                FaultKind::Eof => PipeError::Disconnected,
            });
        }
        let mut sh = this.sh.borrow_mut();
        let peer = &mut sh.ends[1 - this.side];
        if peer.closed {
            return Err(PipeError::Disconnected);
        }
        peer.inbox.push_back(msg);
        let w = peer.rx_waker.take();
        drop(sh);
        if let Some(w) = w {
            w.wake();
        }
        Ok(())
    }

    fn send_poll_flush(self: Pin<&mut Self>, _cx: &mut Context) -> Poll<Result<(), PipeError>> {
        let this = self.get_mut();
        if let Some(k) = this.op(b'f') {
            return Poll::Ready(Err(match k {
                FaultKind::Error | FaultKind::SendOnly => PipeError::Injected,
                FaultKind::Eof => PipeError::Disconnected,
            }));
        }
        Poll::Ready(Ok(()))
    }
}
