//! Workload generator for the protocol-level rig: draws the next protocol operation from a
//! weighted profile, using the model's current state to aim at live entities (and, on purpose,
//! at stale and never-issued ones).

use super::model::{ConnState, EndSt, Input, Model};
use crate::codec::{real, rv};
use crate::prng::Rng;
use aldrin_core::message::*;
use aldrin_core::{
    BusListenerCookie, BusListenerFilter, BusListenerScope, ChannelCookie, ChannelEnd, ChannelEndWithCapacity, ObjectCookie,
    ObjectUuid, SerializedValue, ServiceCookie, ServiceInfo, ServiceUuid, TypeId,
};
use uuid::Uuid;

#[derive(Debug, Clone, Copy, PartialEq, Eq, PartialOrd, Ord)]
pub enum Op {
    Sync,
    CreateObject,
    DestroyObject,
    CreateService,
    CreateService2,
    DestroyService,
    QueryVersion,
    QueryInfo,
    Call,
    Reply,
    ReplyNonOwner,
    ReplyStale,
    Abort,
    AbortUnknown,
    SubscribeEvent,
    UnsubscribeEvent,
    SubscribeAll,
    UnsubscribeAll,
    SubscribeService,
    UnsubscribeService,
    Emit,
    EmitStranger,
    CreateChannel,
    ClaimEnd,
    CloseEnd,
    SendItem,
    AddCapacity,
    CreateListener,
    DestroyListener,
    AddFilter,
    RemoveFilter,
    ClearFilters,
    StartListener,
    StopListener,
    RegisterIntro,
    QueryIntro,
    ReplyIntro,
    DisconnectShutdown,
    DisconnectClose,
    DisconnectHandle,
    DisconnectDrop,
    DisconnectMute,
    Connect,
    /// a message kind newer than the sender's negotiated version
    TooNew,
    /// a broker->client kind sent by a client
    WrongDirection,
    /// call with a serial that is still pending
    CallDupSerial,
    /// subscribe without serial
    SubscribeNoSerial,
    /// a reply whose serial is guessed (the broker numbers calls sequentially)
    ReplyGuess,
    /// any of the 63 kinds from upstream's Arbitrary derive, ids partly redirected to live and
    /// stale pools, payload well-formed or garbage
    Arbitrary,
}

#[derive(Debug, Clone)]
pub struct Profile {
    pub name: &'static str,
    pub conns: (usize, usize),
    pub max_conns_total: usize,
    pub versions: Vec<u32>,
    pub weights: Vec<(Op, u32)>,
    pub obj_pool: usize,
    pub svc_pool: usize,
    pub events: Vec<u32>,
    pub capacities: Vec<u32>,
    /// probability (per cent) that a reference aims at a stale or never-issued id
    pub stale_pct: usize,
    pub burst_pct: usize,
    pub max_burst: usize,
    pub ops: usize,
    /// payload nesting depth target (1..)
    pub payload_depth: usize,
}

pub struct Gen {
    pub rng: Rng,
    pub profile: Profile,
    serial: Vec<u32>,
    tag: u64,
    pub stale_obj: Vec<Uuid>,
    pub stale_svc: Vec<Uuid>,
    pub stale_chan: Vec<Uuid>,
    pub stale_listener: Vec<Uuid>,
    bogus: u64,
    /// synthetic serials of calls seen at callees (for replies, also after completion)
    pub seen_callee_serials: Vec<(usize, u32)>,
    pub type_pool: Vec<Uuid>,
    force: Option<usize>,
    /// highest broker-chosen call serial observed so far (real value), for guessing
    pub max_real_serial: u32,
}

pub fn pool_uuid(space: u8, i: usize) -> Uuid {
    Uuid::from_u128(0xA11D_0000_0000_4000_8000_0000_0000_0000 | ((space as u128) << 32) | i as u128)
}

const SERIAL_BOUNDARY: [u32; 6] = [0, 1, 0x7fff_ffff, 0x8000_0000, u32::MAX - 1, u32::MAX];

impl Gen {
    pub fn new(rng: Rng, profile: Profile) -> Self {
        Gen {
            rng,
            profile,
            serial: Vec::new(),
            tag: 0,
            stale_obj: Vec::new(),
            stale_svc: Vec::new(),
            stale_chan: Vec::new(),
            stale_listener: Vec::new(),
            bogus: 0,
            seen_callee_serials: Vec::new(),
            type_pool: (0..3).map(|i| pool_uuid(9, i)).collect(),
            force: None,
            max_real_serial: 0,
        }
    }

    fn next_serial(&mut self, c: usize) -> u32 {
        while self.serial.len() <= c {
            let s = if self.rng.chance(1, 3) { *self.rng.pick(&SERIAL_BOUNDARY) } else { self.rng.next_u32() % 1000 };
            self.serial.push(s);
        }
        let s = self.serial[c];
        self.serial[c] = s.wrapping_add(1);
        s
    }

    fn bogus(&mut self) -> Uuid {
        self.bogus += 1;
        Uuid::from_u128(0xB060_0000_0000_4000_8000_0000_0000_0000 | self.bogus as u128)
    }

    pub fn payload(&mut self, sender_version: u32) -> SerializedValue {
        self.tag += 1;
        let mut budget = 12;
        let depth = 1 + self.rng.below(self.profile.payload_depth.max(1));
        let inner = rv::gen_value(&mut self.rng, depth, &mut budget);
        let v = rv::RV::Struct(vec![(0, rv::RV::U64(self.tag)), (1, inner)]);
        let bytes = if sender_version >= 20 {
            // "exotic" = legal but unusual forms: byte strings in several segments, wide varints
            if self.rng.chance(1, 4) {
                let exotic = self.rng.bool();
                rv::encode_mixed(&v, &mut self.rng, exotic)
            } else if self.rng.chance(1, 4) {
                rv::encode_epoch_exotic(&v, rv::Epoch::V2, &mut self.rng)
            } else {
                rv::encode_epoch(&v, rv::Epoch::V2)
            }
        } else {
            rv::encode_epoch(&v, rv::Epoch::V1)
        };
        real::sv_from_bytes(&bytes).expect("payload")
    }

    fn alive(&self, m: &Model) -> Vec<usize> {
        (0..m.conns.len()).filter(|&c| matches!(m.conns[c].state, ConnState::Alive | ConnState::Mute)).collect()
    }

    fn pick_obj_cookie(&mut self, m: &Model, prefer_owner: Option<usize>) -> ObjectCookie {
        let live: Vec<(Uuid, usize)> = m.objs.values().map(|o| (o.cookie.0, o.owner)).collect();
        if self.rng.chance(self.profile.stale_pct, 100) || live.is_empty() {
            if !self.stale_obj.is_empty() && self.rng.bool() {
                return ObjectCookie(*self.rng.pick(&self.stale_obj));
            }
            return ObjectCookie(self.bogus());
        }
        if let Some(o) = prefer_owner {
            let own: Vec<Uuid> = live.iter().filter(|(_, w)| *w == o).map(|(u, _)| *u).collect();
            if !own.is_empty() && self.rng.chance(3, 4) {
                return ObjectCookie(*self.rng.pick(&own));
            }
        }
        ObjectCookie(self.rng.pick(&live).0)
    }

    fn pick_svc_cookie(&mut self, m: &Model, prefer_owner: Option<usize>) -> ServiceCookie {
        let live: Vec<(Uuid, usize)> = m.svcs.values().map(|s| (s.cookie.0, s.owner)).collect();
        if self.rng.chance(self.profile.stale_pct, 100) || live.is_empty() {
            if !self.stale_svc.is_empty() && self.rng.bool() {
                return ServiceCookie(*self.rng.pick(&self.stale_svc));
            }
            return ServiceCookie(self.bogus());
        }
        if let Some(o) = prefer_owner {
            let own: Vec<Uuid> = live.iter().filter(|(_, w)| *w == o).map(|(u, _)| *u).collect();
            if !own.is_empty() && self.rng.chance(3, 4) {
                return ServiceCookie(*self.rng.pick(&own));
            }
        }
        ServiceCookie(self.rng.pick(&live).0)
    }

    fn pick_chan(&mut self, m: &Model) -> ChannelCookie {
        let live: Vec<Uuid> = m.chans.keys().copied().collect();
        if self.rng.chance(self.profile.stale_pct, 100) || live.is_empty() {
            if !self.stale_chan.is_empty() && self.rng.bool() {
                return ChannelCookie(*self.rng.pick(&self.stale_chan));
            }
            return ChannelCookie(self.bogus());
        }
        ChannelCookie(*self.rng.pick(&live))
    }

    fn pick_listener(&mut self, m: &Model, prefer_owner: usize) -> BusListenerCookie {
        let live: Vec<(Uuid, usize)> = m.listeners.values().map(|l| (l.cookie.0, l.owner)).collect();
        if self.rng.chance(self.profile.stale_pct, 100) || live.is_empty() {
            if !self.stale_listener.is_empty() && self.rng.bool() {
                return BusListenerCookie(*self.rng.pick(&self.stale_listener));
            }
            return BusListenerCookie(self.bogus());
        }
        let own: Vec<Uuid> = live.iter().filter(|(_, w)| *w == prefer_owner).map(|(u, _)| *u).collect();
        if !own.is_empty() && self.rng.chance(9, 10) {
            return BusListenerCookie(*self.rng.pick(&own));
        }
        BusListenerCookie(self.rng.pick(&live).0)
    }

    fn filter(&mut self) -> BusListenerFilter {
        let o = ObjectUuid(pool_uuid(1, self.rng.below(self.profile.obj_pool)));
        let s = ServiceUuid(pool_uuid(2, self.rng.below(self.profile.svc_pool)));
        match self.rng.below(6) {
            0 => BusListenerFilter::any_object(),
            1 => BusListenerFilter::object(o),
            2 => BusListenerFilter::any_object_any_service(),
            3 => BusListenerFilter::specific_object_any_service(o),
            4 => BusListenerFilter::any_object_specific_service(s),
            _ => BusListenerFilter::specific_object_and_service(o, s),
        }
    }

    /// Remembers ids that are about to become stale (called by the driver before each step).
    pub fn remember(&mut self, m: &Model) {
        for o in m.objs.values() {
            if !self.stale_obj.contains(&o.cookie.0) && self.stale_obj.len() < 64 {
                self.stale_obj.push(o.cookie.0);
            }
        }
        for s in m.svcs.values() {
            if !self.stale_svc.contains(&s.cookie.0) && self.stale_svc.len() < 64 {
                self.stale_svc.push(s.cookie.0);
            }
        }
        for c in m.chans.keys() {
            if !self.stale_chan.contains(c) && self.stale_chan.len() < 64 {
                self.stale_chan.push(*c);
            }
        }
        for l in m.listeners.keys() {
            if !self.stale_listener.contains(l) && self.stale_listener.len() < 64 {
                self.stale_listener.push(*l);
            }
        }
        for call in m.calls.values() {
            if !self.seen_callee_serials.contains(&(call.callee, call.callee_serial)) {
                if self.seen_callee_serials.len() >= 64 {
                    self.seen_callee_serials.remove(0);
                }
                self.seen_callee_serials.push((call.callee, call.callee_serial));
            }
        }
    }

    fn draw_op(&mut self) -> Op {
        let total: u32 = self.profile.weights.iter().map(|(_, w)| *w).sum();
        let mut x = (self.rng.next_u64() % total as u64) as u32;
        for (op, w) in &self.profile.weights {
            if x < *w {
                return *op;
            }
            x -= *w;
        }
        self.profile.weights[0].0
    }

    /// An operation issued by connection `c` (a plain message, no termination), if one can be
    /// drawn within a few attempts.
    pub fn next_for(&mut self, m: &Model, c: usize) -> Option<Input> {
        for _ in 0..40 {
            self.force = Some(c);
            let r = self.next(m);
            self.force = None;
            match r {
                Some(Input::Msg(who, msg)) if who == c && !matches!(msg, Message::Shutdown(_)) => return Some(Input::Msg(who, msg)),
                _ => {}
            }
        }
        None
    }

    /// Next input (synthetic id space). `None` if the drawn operation is not applicable now.
    pub fn next(&mut self, m: &Model) -> Option<Input> {
        let mut alive = self.alive(m);
        if let Some(f) = self.force {
            alive.retain(|&c| c == f);
        }
        let op = self.draw_op();
        if op == Op::Connect {
            if m.conns.len() < self.profile.max_conns_total {
                let v = *self.rng.pick(&self.profile.versions.clone());
                return Some(Input::Connect(v));
            }
            return None;
        }
        if alive.is_empty() {
            return None;
        }
        let c = *self.rng.pick(&alive);
        let v = m.conns[c].version;
        let msg: Message = match op {
            Op::Connect => unreachable!(),
            Op::Sync => Sync { serial: self.next_serial(c) }.into(),
            Op::CreateObject => {
                let uuid = ObjectUuid(pool_uuid(1, self.rng.below(self.profile.obj_pool)));
                CreateObject { serial: self.next_serial(c), uuid }.into()
            }
            Op::DestroyObject => {
                let cookie = self.pick_obj_cookie(m, Some(c));
                DestroyObject { serial: self.next_serial(c), cookie }.into()
            }
            Op::CreateService => {
                let object_cookie = self.pick_obj_cookie(m, Some(c));
                let uuid = ServiceUuid(pool_uuid(2, self.rng.below(self.profile.svc_pool)));
                CreateService { serial: self.next_serial(c), object_cookie, uuid, version: self.rng.next_u32() % 5 }.into()
            }
            Op::CreateService2 => {
                if v < 17 {
                    return None;
                }
                let object_cookie = self.pick_obj_cookie(m, Some(c));
                let uuid = ServiceUuid(pool_uuid(2, self.rng.below(self.profile.svc_pool)));
                let mut info = ServiceInfo::new(self.rng.next_u32() % 5);
                match self.rng.below(3) {
                    0 => {}
                    1 => info = info.set_subscribe_all(true),
                    _ => info = info.set_subscribe_all(false),
                }
                if self.rng.bool() {
                    info = info.set_type_id(TypeId(*self.rng.pick(&self.type_pool)));
                }
                let mut value = SerializedValue::serialize(info).unwrap();
                if v < 20 {
                    let _ = value.convert(None, aldrin_core::ProtocolVersion::new(1, v));
                }
                CreateService2 { serial: self.next_serial(c), object_cookie, uuid, value }.into()
            }
            Op::DestroyService => {
                let cookie = self.pick_svc_cookie(m, Some(c));
                DestroyService { serial: self.next_serial(c), cookie }.into()
            }
            Op::QueryVersion => QueryServiceVersion { serial: self.next_serial(c), cookie: self.pick_svc_cookie(m, None) }.into(),
            Op::QueryInfo => {
                if v < 17 {
                    return None;
                }
                QueryServiceInfo { serial: self.next_serial(c), cookie: self.pick_svc_cookie(m, None) }.into()
            }
            Op::Call | Op::CallDupSerial => {
                // most calls should reach a live service
                if m.svcs.is_empty() && self.rng.chance(9, 10) {
                    return None;
                }
                let service_cookie = self.pick_svc_cookie(m, None);
                let serial = if op == Op::CallDupSerial {
                    match m.conns[c].calls.keys().next() {
                        Some(s) => *s,
                        None => return None,
                    }
                } else {
                    // reuse of serials whose call has completed is allowed
                    let mut s = self.next_serial(c);
                    if self.rng.chance(1, 4) {
                        s = s.wrapping_sub(1 + (self.rng.next_u32() % 3));
                    }
                    if m.conns[c].calls.contains_key(&s) {
                        return None;
                    }
                    s
                };
                let function = self.rng.next_u32() % 4;
                let value = self.payload(v);
                if v >= 19 && self.rng.bool() {
                    let version = if self.rng.bool() { Some(self.rng.next_u32() % 3) } else { None };
                    CallFunction2 { serial, service_cookie, function, version, value }.into()
                } else {
                    CallFunction { serial, service_cookie, function, value }.into()
                }
            }
            Op::Reply | Op::ReplyNonOwner | Op::ReplyStale => {
                let pending: Vec<(usize, u32)> = m.calls.values().map(|k| (k.callee, k.callee_serial)).collect();
                let (who, serial) = match op {
                    Op::Reply => {
                        if pending.is_empty() {
                            return None;
                        }
                        *self.rng.pick(&pending)
                    }
                    Op::ReplyNonOwner => {
                        if pending.is_empty() || alive.len() < 2 {
                            return None;
                        }
                        let (callee, s) = *self.rng.pick(&pending);
                        let others: Vec<usize> = alive.iter().copied().filter(|&x| x != callee).collect();
                        if others.is_empty() {
                            return None;
                        }
                        (*self.rng.pick(&others), s)
                    }
                    _ => {
                        let done: Vec<(usize, u32)> = self.seen_callee_serials.iter().copied().filter(|x| !pending.contains(x)).collect();
                        if done.is_empty() {
                            return None;
                        }
                        *self.rng.pick(&done)
                    }
                };
                if m.conns[who].state != ConnState::Alive {
                    return None;
                }
                let wv = m.conns[who].version;
                let result = match self.rng.below(8) {
                    0 | 1 | 2 => CallFunctionResult::Ok(self.payload(wv)),
                    3 | 4 => CallFunctionResult::Err(self.payload(wv)),
                    5 => CallFunctionResult::InvalidFunction,
                    6 => CallFunctionResult::InvalidArgs,
                    _ => CallFunctionResult::Aborted,
                };
                return Some(Input::Msg(who, CallFunctionReply { serial, result }.into()));
            }
            Op::Abort => {
                if v < 16 {
                    return None;
                }
                let mine: Vec<u32> = m.conns[c].calls.keys().copied().collect();
                if mine.is_empty() {
                    return None;
                }
                AbortFunctionCall { serial: *self.rng.pick(&mine) }.into()
            }
            Op::AbortUnknown => {
                if v < 16 {
                    return None;
                }
                let s = self.rng.next_u32();
                if m.conns[c].calls.contains_key(&s) {
                    return None;
                }
                AbortFunctionCall { serial: s }.into()
            }
            Op::SubscribeEvent => {
                let event = *self.rng.pick(&self.profile.events.clone());
                SubscribeEvent { serial: Some(self.next_serial(c)), service_cookie: self.pick_svc_cookie(m, None), event }.into()
            }
            Op::SubscribeNoSerial => {
                let event = *self.rng.pick(&self.profile.events.clone());
                SubscribeEvent { serial: None, service_cookie: self.pick_svc_cookie(m, None), event }.into()
            }
            Op::UnsubscribeEvent => {
                let event = *self.rng.pick(&self.profile.events.clone());
                // aim at an existing subscription most of the time
                let mine: Vec<(Uuid, u32)> = m
                    .svcs
                    .values()
                    .flat_map(|s| s.ev_subs.iter().filter(|(_, set)| set.contains(&c)).map(move |(e, _)| (s.cookie.0, *e)))
                    .collect();
                if !mine.is_empty() && self.rng.chance(3, 4) {
                    let (sc, e) = *self.rng.pick(&mine);
                    UnsubscribeEvent { service_cookie: ServiceCookie(sc), event: e }.into()
                } else {
                    UnsubscribeEvent { service_cookie: self.pick_svc_cookie(m, None), event }.into()
                }
            }
            Op::SubscribeAll => {
                if v < 18 {
                    return None;
                }
                SubscribeAllEvents { serial: Some(self.next_serial(c)), service_cookie: self.pick_svc_cookie(m, None) }.into()
            }
            Op::UnsubscribeAll => {
                if v < 18 {
                    return None;
                }
                let serial = if self.rng.chance(3, 4) { Some(self.next_serial(c)) } else { None };
                let mine: Vec<Uuid> = m.svcs.values().filter(|s| s.all_subs.contains(&c)).map(|s| s.cookie.0).collect();
                let service_cookie = if !mine.is_empty() && self.rng.chance(3, 4) { ServiceCookie(*self.rng.pick(&mine)) } else { self.pick_svc_cookie(m, None) };
                UnsubscribeAllEvents { serial, service_cookie }.into()
            }
            Op::SubscribeService => {
                if v < 18 {
                    return None;
                }
                SubscribeService { serial: self.next_serial(c), service_cookie: self.pick_svc_cookie(m, None) }.into()
            }
            Op::UnsubscribeService => {
                if v < 18 {
                    return None;
                }
                UnsubscribeService { service_cookie: self.pick_svc_cookie(m, None) }.into()
            }
            Op::Emit => {
                let mine: Vec<Uuid> = m.svcs.values().filter(|s| s.owner == c).map(|s| s.cookie.0).collect();
                if mine.is_empty() {
                    return None;
                }
                let event = *self.rng.pick(&self.profile.events.clone());
                EmitEvent { service_cookie: ServiceCookie(*self.rng.pick(&mine)), event, value: self.payload(v) }.into()
            }
            Op::EmitStranger => {
                let event = *self.rng.pick(&self.profile.events.clone());
                let foreign: Vec<Uuid> = m.svcs.values().filter(|s| s.owner != c).map(|s| s.cookie.0).collect();
                let sc = if foreign.is_empty() { self.pick_svc_cookie(m, None) } else { ServiceCookie(*self.rng.pick(&foreign)) };
                EmitEvent { service_cookie: sc, event, value: self.payload(v) }.into()
            }
            Op::CreateChannel => {
                let end = if self.rng.bool() { ChannelEndWithCapacity::Sender } else { ChannelEndWithCapacity::Receiver(*self.rng.pick(&self.profile.capacities.clone())) };
                CreateChannel { serial: self.next_serial(c), end }.into()
            }
            Op::ClaimEnd => {
                let cookie = self.pick_chan(m);
                // aim at the unclaimed end most of the time
                let end = match m.chans.get(&cookie.0) {
                    Some(ch) if ch.sender == EndSt::Unclaimed && self.rng.chance(5, 6) => ChannelEndWithCapacity::Sender,
                    Some(ch) if ch.receiver == EndSt::Unclaimed && self.rng.chance(5, 6) => ChannelEndWithCapacity::Receiver(*self.rng.pick(&self.profile.capacities.clone())),
                    _ => {
                        if self.rng.bool() {
                            ChannelEndWithCapacity::Sender
                        } else {
                            ChannelEndWithCapacity::Receiver(*self.rng.pick(&self.profile.capacities.clone()))
                        }
                    }
                };
                ClaimChannelEnd { serial: self.next_serial(c), cookie, end }.into()
            }
            Op::CloseEnd => {
                let cookie = self.pick_chan(m);
                let end = match m.chans.get(&cookie.0) {
                    Some(ch) if matches!(ch.sender, EndSt::Claimed { owner, .. } if owner == c) && self.rng.chance(2, 3) => ChannelEnd::Sender,
                    Some(ch) if matches!(ch.receiver, EndSt::Claimed { owner, .. } if owner == c) && self.rng.chance(2, 3) => ChannelEnd::Receiver,
                    _ => {
                        if self.rng.bool() {
                            ChannelEnd::Sender
                        } else {
                            ChannelEnd::Receiver
                        }
                    }
                };
                CloseChannelEnd { serial: self.next_serial(c), cookie, end }.into()
            }
            Op::SendItem => {
                // prefer channels where some connection is the sender; then send *as that sender*
                let senders: Vec<(Uuid, usize)> = m
                    .chans
                    .values()
                    .filter_map(|ch| match ch.sender {
                        EndSt::Claimed { owner, .. } if m.conns[owner].state == ConnState::Alive => Some((ch.cookie.0, owner)),
                        _ => None,
                    })
                    .collect();
                if !senders.is_empty() && self.rng.chance(9, 10) {
                    let (ck, who) = *self.rng.pick(&senders);
                    let value = self.payload(m.conns[who].version);
                    return Some(Input::Msg(who, SendItem { cookie: ChannelCookie(ck), value }.into()));
                }
                SendItem { cookie: self.pick_chan(m), value: self.payload(v) }.into()
            }
            Op::AddCapacity => {
                let receivers: Vec<(Uuid, usize)> = m
                    .chans
                    .values()
                    .filter_map(|ch| match ch.receiver {
                        EndSt::Claimed { owner, .. } if m.conns[owner].state == ConnState::Alive => Some((ch.cookie.0, owner)),
                        _ => None,
                    })
                    .collect();
                let capacity = match self.rng.below(8) {
                    0 => 0,
                    1 => u32::MAX,
                    2 => u32::MAX - 3,
                    _ => 1 + self.rng.next_u32() % 6,
                };
                if !receivers.is_empty() && self.rng.chance(9, 10) {
                    let (ck, who) = *self.rng.pick(&receivers);
                    return Some(Input::Msg(who, AddChannelCapacity { cookie: ChannelCookie(ck), capacity }.into()));
                }
                AddChannelCapacity { cookie: self.pick_chan(m), capacity }.into()
            }
            Op::CreateListener => CreateBusListener { serial: self.next_serial(c) }.into(),
            Op::DestroyListener => DestroyBusListener { serial: self.next_serial(c), cookie: self.pick_listener(m, c) }.into(),
            Op::AddFilter => AddBusListenerFilter { cookie: self.pick_listener(m, c), filter: self.filter() }.into(),
            Op::RemoveFilter => {
                let cookie = self.pick_listener(m, c);
                let existing: Vec<BusListenerFilter> = m.listeners.get(&cookie.0).map(|l| l.filters.iter().copied().collect()).unwrap_or_default();
                let filter = if !existing.is_empty() && self.rng.chance(3, 4) { *self.rng.pick(&existing) } else { self.filter() };
                RemoveBusListenerFilter { cookie, filter }.into()
            }
            Op::ClearFilters => ClearBusListenerFilters { cookie: self.pick_listener(m, c) }.into(),
            Op::StartListener => {
                let scope = *self.rng.pick(&[BusListenerScope::Current, BusListenerScope::New, BusListenerScope::All]);
                StartBusListener { serial: self.next_serial(c), cookie: self.pick_listener(m, c), scope }.into()
            }
            Op::StopListener => StopBusListener { serial: self.next_serial(c), cookie: self.pick_listener(m, c) }.into(),
            Op::RegisterIntro => {
                if v < 17 {
                    return None;
                }
                let mut ids = std::collections::HashSet::new();
                for t in &self.type_pool.clone() {
                    if self.rng.bool() {
                        ids.insert(TypeId(*t));
                    }
                }
                let mut value = SerializedValue::serialize(&ids).unwrap();
                if v < 20 {
                    let _ = value.convert(None, aldrin_core::ProtocolVersion::new(1, v));
                }
                RegisterIntrospection { value }.into()
            }
            Op::QueryIntro => {
                if v < 17 {
                    return None;
                }
                let t = if self.rng.chance(9, 10) { *self.rng.pick(&self.type_pool) } else { self.bogus() };
                QueryIntrospection { serial: self.next_serial(c), type_id: TypeId(t) }.into()
            }
            Op::ReplyIntro => {
                let asked: Vec<(usize, u32)> = m.intro.values().filter_map(|e| e.asked).collect();
                if asked.is_empty() {
                    return None;
                }
                let (mut who, serial) = *self.rng.pick(&asked);
                // one in four: a connection that was not asked answers with the live serial
                if self.rng.chance(1, 4) {
                    let others: Vec<usize> = (0..m.conns.len()).filter(|&x| x != who && m.conns[x].state == ConnState::Alive).collect();
                    if !others.is_empty() {
                        who = *self.rng.pick(&others);
                    }
                }
                if m.conns[who].state != ConnState::Alive {
                    return None;
                }
                let wv = m.conns[who].version;
                let result = if self.rng.chance(2, 3) { QueryIntrospectionResult::Ok(self.payload(wv)) } else { QueryIntrospectionResult::Unavailable };
                return Some(Input::Msg(who, QueryIntrospectionReply { serial, result }.into()));
            }
            Op::DisconnectShutdown => Shutdown.into(),
            Op::DisconnectClose => return Some(Input::CloseTransport(c)),
            Op::DisconnectHandle => return Some(Input::HandleShutdown(c)),
            Op::DisconnectDrop => {
                // at most one unnoticed dropped connection at a time keeps the state set small
                if m.conns.iter().any(|x| x.state == ConnState::Zombie) {
                    return None;
                }
                return Some(Input::DropFuture(c));
            }
            Op::DisconnectMute => {
                // at most one half-open connection at a time keeps the state set small
                if m.conns.iter().any(|x| x.state == ConnState::Mute) {
                    return None;
                }
                return Some(Input::WriteFault(c));
            }
            Op::TooNew => {
                let sc = self.pick_svc_cookie(m, None);
                let s = self.next_serial(c);
                let cands: Vec<(u32, Message)> = vec![
                    (16, AbortFunctionCall { serial: s }.into()),
                    (17, QueryServiceInfo { serial: s, cookie: sc }.into()),
                    (17, QueryIntrospection { serial: s, type_id: TypeId(self.type_pool[0]) }.into()),
                    (18, SubscribeService { serial: s, service_cookie: sc }.into()),
                    (18, UnsubscribeService { service_cookie: sc }.into()),
                    (18, SubscribeAllEvents { serial: Some(s), service_cookie: sc }.into()),
                    (18, UnsubscribeAllEvents { serial: Some(s), service_cookie: sc }.into()),
                    (19, CallFunction2 { serial: s, service_cookie: sc, function: 0, version: None, value: self.payload(v) }.into()),
                ];
                let ok: Vec<Message> = cands.into_iter().filter(|(minv, _)| v < *minv).map(|(_, m)| m).collect();
                if ok.is_empty() {
                    return None;
                }
                self.rng.pick(&ok).clone()
            }
            Op::ReplyGuess => {
                let serial = if self.rng.chance(1, 4) { self.rng.next_u32() % 16 } else { (self.max_real_serial + self.rng.next_u32() % 4).saturating_sub(1) };
                let result = if self.rng.bool() { CallFunctionResult::Ok(self.payload(v)) } else { CallFunctionResult::InvalidArgs };
                CallFunctionReply { serial, result }.into()
            }
            Op::Arbitrary => {
                use arbitrary::{Arbitrary, Unstructured};
                let n = 24 + self.rng.below(200);
                let mut data = self.rng.bytes(n);
                if self.rng.chance(1, 4) {
                    for b in data.iter_mut().skip(1) {
                        if self.rng.chance(1, 3) {
                            *b = *self.rng.pick(&[0u8, 1, 0xff, 0x7f, 0x80]);
                        }
                    }
                }
                let mut u = Unstructured::new(&data);
                let Ok(mut msg) = Message::arbitrary(&mut u) else { return None };
                // connection-level kinds are exercised by their own operations
                if matches!(msg, Message::Shutdown(_)) {
                    return None;
                }
                // redirect ids to live / stale entities
                let m2 = m.clone();
                let mut picks: Vec<(super::model::CookieKind, Uuid)> = Vec::new();
                for k in [super::model::CookieKind::Object, super::model::CookieKind::Service, super::model::CookieKind::Channel, super::model::CookieKind::Listener] {
                    let u = match k {
                        super::model::CookieKind::Object => self.pick_obj_cookie(&m2, Some(c)).0,
                        super::model::CookieKind::Service => self.pick_svc_cookie(&m2, None).0,
                        super::model::CookieKind::Channel => self.pick_chan(&m2).0,
                        super::model::CookieKind::Listener => self.pick_listener(&m2, c).0,
                    };
                    picks.push((k, u));
                }
                let redirect = self.rng.chance(3, 4);
                if redirect {
                    super::msgmap::visit_cookies(&mut msg, &mut |k, u| {
                        if let Some((_, p)) = picks.iter().find(|(pk, _)| *pk == k) {
                            *u = *p;
                        }
                    });
                }
                if let Some((space, s)) = super::msgmap::broker_serial_in(&mut msg) {
                    let pend: Vec<u32> = if space == 0 { m.calls.values().map(|k| k.callee_serial).collect() } else { m.intro.values().filter_map(|e| e.asked.map(|(_, s)| s)).collect() };
                    if !pend.is_empty() && self.rng.chance(1, 2) {
                        *s = *self.rng.pick(&pend);
                    } else if self.rng.chance(2, 3) {
                        // guessing: the broker numbers its serials sequentially
                        *s = if self.rng.bool() { self.rng.next_u32() % 24 } else { (self.max_real_serial + self.rng.next_u32() % 4).saturating_sub(1) };
                    }
                }
                // uuids of objects / services from the pool, so that creations collide
                match &mut msg {
                    Message::CreateObject(x) if self.rng.chance(2, 3) => x.uuid = ObjectUuid(pool_uuid(1, self.rng.below(self.profile.obj_pool))),
                    Message::CreateService(x) if self.rng.chance(2, 3) => x.uuid = ServiceUuid(pool_uuid(2, self.rng.below(self.profile.svc_pool))),
                    Message::CreateService2(x) if self.rng.chance(2, 3) => x.uuid = ServiceUuid(pool_uuid(2, self.rng.below(self.profile.svc_pool))),
                    Message::CallFunction(x) if m.conns[c].calls.contains_key(&x.serial) && self.rng.bool() => x.serial = self.next_serial(c),
                    _ => {}
                }
                // payload: well-formed for the sender's version, or garbage where no peer has
                // to re-encode it (DESIGN C11; the re-encoding case is a known finding with its
                // own probe)
                let wv = v;
                let garbage_ok = wv < 20 && !matches!(msg, Message::QueryIntrospectionReply(_));
                let new_payload = if garbage_ok && self.rng.chance(1, 3) {
                    let n = 1 + self.rng.below(24);
                    real::sv_from_bytes(&self.rng.bytes(n)).unwrap()
                } else {
                    self.payload(wv)
                };
                let keep_struct = matches!(msg, Message::CreateService2(_) | Message::RegisterIntrospection(_)) && self.rng.chance(1, 2);
                if let Some(val) = msg.value_mut() {
                    if !keep_struct {
                        *val = new_payload;
                    } else {
                        // a well-formed structural payload
                        *val = SerializedValue::serialize(ServiceInfo::new(1)).unwrap();
                        if wv < 20 {
                            let _ = val.convert(None, aldrin_core::ProtocolVersion::new(1, wv));
                        }
                    }
                }
                if let Message::RegisterIntrospection(x) = &mut msg {
                    if keep_struct {
                        let mut ids = std::collections::HashSet::new();
                        ids.insert(TypeId(self.type_pool[0]));
                        x.value = SerializedValue::serialize(&ids).unwrap();
                        if wv < 20 {
                            let _ = x.value.convert(None, aldrin_core::ProtocolVersion::new(1, wv));
                        }
                    }
                }
                msg
            }
            Op::WrongDirection => {
                let s = self.next_serial(c);
                let sc = self.pick_svc_cookie(m, None);
                let cands: Vec<Message> = vec![
                    SyncReply { serial: s }.into(),
                    ServiceDestroyed { service_cookie: sc }.into(),
                    CreateObjectReply { serial: s, result: CreateObjectResult::DuplicateObject }.into(),
                    ItemReceived { cookie: self.pick_chan(m), value: self.payload(v) }.into(),
                    ChannelEndClosed { cookie: self.pick_chan(m), end: ChannelEnd::Sender }.into(),
                    SubscribeEventReply { serial: s, result: SubscribeEventResult::Ok }.into(),
                ];
                self.rng.pick(&cands).clone()
            }
        };
        Some(Input::Msg(c, msg))
    }
}
