//! RawRig: the real broker and real `Connection` tasks on `dx`, driven by protocol-level peers
//! (RawConn) in a dequeue order chosen by the harness, with every delivery compared against the
//! set of states of `BusModel` that are consistent with what was observed so far.

use super::dx::{now_or_never, Dx, RunEnd, Slot, TaskId};
use super::model::{self, ConnState, CookieKind, Exp, Input, Model, StepOut};
use super::msgmap::{self, broker_serial_in, broker_serial_out, kind_name, msg_eq, visit_cookies};
use super::pipe::{duplex, End};
use aldrin_broker::{Broker, BrokerHandle, ConnectionHandle};
use aldrin_core::message::*;
use aldrin_core::{BusEvent, SerializedValue};
use std::cell::RefCell;
use std::collections::{BTreeSet, HashMap};
use std::rc::Rc;
use uuid::Uuid;

#[derive(Clone, Debug, Default)]
pub struct Bindings {
    c_r2s: HashMap<Uuid, Uuid>,
    c_s2r: HashMap<Uuid, Uuid>,
    s_r2s: HashMap<(usize, u8, u32), u32>,
    s_s2r: HashMap<u32, (usize, u32)>,
    s_hist: HashMap<u32, (usize, u32)>,
    /// synthetic cookies whose real counterpart has not been seen yet: every message that
    /// announced them went to a connection that was ending itself (nothing is demanded there)
    pending: Vec<(CookieKind, Uuid)>,
}

impl Bindings {
    /// client -> broker message, synthetic -> real
    pub fn input_to_real(&self, m: &Message) -> Message {
        let mut m = m.clone();
        visit_cookies(&mut m, &mut |_, u| {
            if let Some(r) = self.c_s2r.get(u) {
                *u = *r;
            }
        });
        if let Some((_, s)) = broker_serial_in(&mut m) {
            if let Some((_, r)) = self.s_s2r.get(s).or_else(|| self.s_hist.get(s)) {
                *s = *r;
            }
        }
        m
    }

    /// client -> broker message, real -> synthetic (sender `c`)
    pub fn input_to_syn(&self, c: usize, m: &Message) -> Message {
        let mut m = m.clone();
        visit_cookies(&mut m, &mut |_, u| {
            if let Some(s) = self.c_r2s.get(u) {
                *u = *s;
            }
        });
        if let Some((space, s)) = broker_serial_in(&mut m) {
            if let Some(syn) = self.s_r2s.get(&(c, space, *s)) {
                *s = *syn;
            } else if let Some((_, syn)) = self.s_r2s.iter().find(|((_, sp, r), _)| *sp == space && *r == *s) {
                *s = *syn;
            }
        }
        m
    }

    pub fn max_real_call_serial(&self) -> u32 {
        self.s_hist.values().map(|(_, r)| *r).max().unwrap_or(0)
    }

    pub fn cookie_real(&self, syn: Uuid) -> Option<Uuid> {
        self.c_s2r.get(&syn).copied()
    }
}

pub struct RawConn {
    pub end: End,
    pub task: TaskId,
    pub result: Slot<String>,
    pub handle: Rc<RefCell<Option<ConnectionHandle>>>,
    pub version: u32,
    pub obs: Vec<Message>,
    pub sent_shutdown: bool,
    pub dropped: bool,
    /// how the harness ended it (for the expected `Connection::run` result)
    pub ended_by: Option<&'static str>,
    /// writes of the broker's connection task towards this client fail (half-open transport)
    pub mute: bool,
}

#[derive(Clone)]
pub struct Cand {
    pub model: Model,
    pub bind: Bindings,
}

#[derive(Debug, Clone)]
pub struct Mismatch {
    /// what kind of disagreement (signature component)
    pub what: String,
    /// message kind the disagreement is about (class attribution)
    pub kind: String,
    pub detail: String,
}

pub struct Rig {
    pub dx: Dx,
    pub broker_task: TaskId,
    pub broker_done: Slot<()>,
    pub handle: BrokerHandle,
    pub conns: Vec<RawConn>,
    pub cands: Vec<Cand>,
    pub events: Vec<String>,
    pub version_violations: Vec<String>,
    /// untagged bus events seen out of lifetime order (a service event after the destruction of
    /// its object, an object creation after an event of one of its services), per connection
    pub order_violations: Vec<String>,
    lifetime_mon: Vec<(std::collections::HashSet<Uuid>, std::collections::HashSet<Uuid>)>,
    pub kinds_delivered: BTreeSet<String>,
    pub kinds_sent: BTreeSet<String>,
    pub steps: u64,
    pub max_cands: usize,
    pub zombie_detections: u64,
    /// how often each clause of the model fired on the accepted path
    pub clauses: std::collections::BTreeMap<String, u64>,
    pub budget_hit: bool,
    pub log_on: bool,
}

fn short(m: &Message) -> String {
    let s = format!("{:?}", m);
    if s.len() > 260 {
        format!("{}…", &s[..s.char_indices().take_while(|(i, _)| *i < 260).last().map(|(i, _)| i).unwrap_or(0)])
    } else {
        s
    }
}

impl Rig {
    pub fn new() -> Self {
        let broker = Broker::new();
        let handle = broker.handle().clone();
        let mut dx = Dx::new();
        let (broker_task, broker_done) = dx.spawn_out("broker", broker.run());
        Rig {
            dx,
            broker_task,
            broker_done,
            handle,
            conns: Vec::new(),
            cands: vec![Cand { model: Model::new(), bind: Bindings::default() }],
            events: Vec::new(),
            version_violations: Vec::new(),
            order_violations: Vec::new(),
            lifetime_mon: Vec::new(),
            kinds_delivered: BTreeSet::new(),
            kinds_sent: BTreeSet::new(),
            steps: 0,
            max_cands: 1,
            zombie_detections: 0,
            clauses: std::collections::BTreeMap::new(),
            budget_hit: false,
            log_on: true,
        }
    }

    pub fn log(&mut self, s: String) {
        if self.log_on && self.events.len() < 4000 {
            self.events.push(s);
        }
    }

    pub fn model(&self) -> &Model {
        &self.cands[0].model
    }

    /// Handshake of a new protocol-level peer. `legacy` uses `Connect`, else `Connect2`.
    /// Returns the reply message; on acceptance the connection is registered (model and rig).
    pub fn connect_raw(&mut self, major: u32, minor: u32, legacy: bool) -> (Option<Message>, Option<usize>) {
        let (h_end, b_end) = duplex([None, None]);
        let mut bh = self.handle.clone();
        let hslot: Rc<RefCell<Option<ConnectionHandle>>> = Rc::new(RefCell::new(None));
        let hs2 = hslot.clone();
        let idx = self.conns.len();
        let (task, result) = self.dx.spawn_out(&format!("conn{}", idx), async move {
            match bh.connect(b_end).await {
                Ok(conn) => {
                    *hs2.borrow_mut() = Some(conn.handle().clone());
                    match conn.run().await {
                        Ok(()) => "run:Ok".to_string(),
                        Err(e) => format!("run:Err({:?})", e),
                    }
                }
                Err(e) => format!("accept:Err({:?})", e),
            }
        });
        let msg: Message = if legacy {
            Connect { version: minor, value: SerializedValue::serialize(()).unwrap() }.into()
        } else {
            let data = ConnectData { user: None };
            Connect2 { major_version: major, minor_version: minor, value: SerializedValue::serialize(&data).unwrap() }.into()
        };
        h_end.push(msg);
        self.dx.run_task(task);
        // the NewConnection event is dequeued by the broker now
        self.dx.run_task(self.broker_task);
        self.dx.run_task(task);
        let reply = h_end.drain().into_iter().next();
        let accepted = match &reply {
            Some(Message::ConnectReply(ConnectReply::Ok(_))) => Some(14),
            Some(Message::ConnectReply2(ConnectReply2 { result: ConnectResult::Ok(v), .. })) => Some(*v),
            _ => None,
        };
        if let Some(v) = accepted {
            self.conns.push(RawConn {
                end: h_end,
                task,
                result,
                handle: hslot,
                version: v,
                obs: Vec::new(),
                sent_shutdown: false,
                dropped: false,
                ended_by: None,
                mute: false,
            });
            for c in &mut self.cands {
                let mut next = c.model.step(&Input::Connect(v));
                c.model = next.remove(0).0;
            }
            self.log(format!("connect #{} version 1.{} ({})", idx, v, if legacy { "Connect" } else { "Connect2" }));
            (reply, Some(idx))
        } else {
            (reply, None)
        }
    }

    pub fn connect(&mut self, minor: u32) -> usize {
        let (_, idx) = self.connect_raw(1, minor, minor == 14 && false);
        idx.expect("handshake of a supported version failed")
    }

    fn inject(&mut self, input: &Input) -> Result<Input, String> {
        // returns the input in *real* id space
        match input {
            Input::Msg(c, m) => {
                let real = self.cands[0].bind.input_to_real(m);
                self.kinds_sent.insert(kind_name(&real));
                if matches!(real, Message::Shutdown(_)) {
                    self.conns[*c].sent_shutdown = true;
                    self.conns[*c].ended_by.get_or_insert("client-shutdown");
                }
                self.conns[*c].end.push(real.clone());
                let t = self.conns[*c].task;
                self.dx.run_task(t);
                Ok(Input::Msg(*c, real))
            }
            Input::CloseTransport(c) => {
                self.conns[*c].end.close();
                self.conns[*c].ended_by.get_or_insert("transport-closed");
                let t = self.conns[*c].task;
                self.dx.run_task(t);
                Ok(input.clone())
            }
            Input::HandleShutdown(c) => {
                let h = self.conns[*c].handle.borrow().clone();
                let Some(h) = h else { return Err("no connection handle".into()) };
                let mut bh = self.handle.clone();
                self.conns[*c].ended_by.get_or_insert("handle-shutdown");
                match now_or_never(async move { bh.shutdown_connection(&h).await }) {
                    Some(_) => Ok(input.clone()),
                    None => Err("broker queue full while requesting shutdown_connection".into()),
                }
            }
            Input::DropFuture(c) => {
                let t = self.conns[*c].task;
                self.dx.kill(t);
                self.conns[*c].dropped = true;
                self.conns[*c].ended_by.get_or_insert("future-dropped");
                Ok(input.clone())
            }
            Input::BrokerShutdown => {
                let mut bh = self.handle.clone();
                for c in &mut self.conns {
                    c.ended_by.get_or_insert("broker-shutdown");
                }
                match now_or_never(async move { bh.shutdown().await }) {
                    Some(_) => Ok(input.clone()),
                    None => Err("broker queue full while requesting shutdown".into()),
                }
            }
            Input::WriteFault(c) => {
                let side = self.conns[*c].end.side;
                self.conns[*c].end.sh.borrow_mut().ends[1 - side].fault = Some((0, super::pipe::FaultKind::SendOnly));
                self.conns[*c].mute = true;
                self.conns[*c].ended_by.get_or_insert("write-fault");
                Ok(input.clone())
            }
            Input::EndOfBurst => Ok(input.clone()),
            Input::Connect(_) => Err("use connect()".into()),
        }
    }

    /// Runs broker and connection tasks until nothing is ready; collects deliveries.
    pub fn settle(&mut self) {
        let mut rounds = 0;
        loop {
            let mut progressed = false;
            if self.dx.is_ready(self.broker_task) {
                self.dx.run_task(self.broker_task);
                progressed = true;
            }
            for i in 0..self.conns.len() {
                let t = self.conns[i].task;
                if self.dx.is_ready(t) {
                    self.dx.run_task(t);
                    progressed = true;
                }
                let got = self.conns[i].end.drain();
                if !got.is_empty() {
                    progressed = true;
                    let v = self.conns[i].version;
                    for m in got {
                        self.kinds_delivered.insert(kind_name(&m));
                        if model::min_version_to_receive(&m) > v {
                            self.version_violations.push(format!("conn {} (1.{}) was sent {}", i, v, kind_name(&m)));
                        }
                        if v < 20 {
                            if let Some(p) = msgmap::payload_bytes(&m) {
                                if msgmap::payload_has_v2_kind(&p) == Some(true) {
                                    self.version_violations.push(format!("conn {} (1.{}) received a 1.20 container encoding in {}", i, v, kind_name(&m)));
                                }
                            }
                        }
                        if let Message::EmitBusEvent(EmitBusEvent { cookie: None, event }) = &m {
                            if self.lifetime_mon.len() <= i {
                                self.lifetime_mon.resize_with(i + 1, Default::default);
                            }
                            let (destroyed, svc_seen) = &mut self.lifetime_mon[i];
                            match event {
                                BusEvent::ObjectCreated(id) => {
                                    if svc_seen.contains(&id.cookie.0) {
                                        self.order_violations.push(format!("conn {} was told about the creation of object {:?} after an event of one of its services", i, id.uuid));
                                    }
                                }
                                BusEvent::ObjectDestroyed(id) => {
                                    destroyed.insert(id.cookie.0);
                                }
                                BusEvent::ServiceCreated(sid) | BusEvent::ServiceDestroyed(sid) => {
                                    if destroyed.contains(&sid.object_id.cookie.0) {
                                        self.order_violations.push(format!(
                                            "conn {} received {} for a service of object {:?} after the ObjectDestroyed of that object: a service's events must lie inside its object's lifetime",
                                            i,
                                            if matches!(event, BusEvent::ServiceCreated(_)) { "ServiceCreated" } else { "ServiceDestroyed" },
                                            sid.object_id.uuid
                                        ));
                                    }
                                    svc_seen.insert(sid.object_id.cookie.0);
                                }
                            }
                        }
                        if matches!(m, Message::Shutdown(_)) && !self.conns[i].sent_shutdown {
                            self.conns[i].sent_shutdown = true;
                            self.conns[i].end.push(Shutdown.into());
                        }
                        self.conns[i].obs.push(m);
                    }
                }
            }
            rounds += 1;
            if !progressed {
                break;
            }
            if rounds > 10_000 {
                self.budget_hit = true;
                break;
            }
        }
    }

    /// Injects `inputs` (synthetic space of the first candidate) in this order into the
    /// broker's queue, lets everything run, and compares.
    pub fn burst(&mut self, inputs: &[Input]) -> Result<(), Mismatch> {
        let mut real_inputs = Vec::new();
        for i in inputs {
            self.log(format!("in  {}", describe_input(i)));
            match self.inject(i) {
                Ok(r) => real_inputs.push(r),
                Err(e) => return Err(Mismatch { what: "harness".into(), kind: "harness".into(), detail: e }),
            }
        }
        self.settle();
        let obs: Vec<Vec<Message>> = self.conns.iter_mut().map(|c| std::mem::take(&mut c.obs)).collect();
        for (i, o) in obs.iter().enumerate() {
            for m in o {
                self.log(format!("out #{} {}", i, short(m)));
            }
        }
        self.steps += inputs.len() as u64;
        // connections that end themselves somewhere in this burst: deliveries to them race with
        // their own termination, nothing is demanded
        let mut lenient: BTreeSet<usize> = BTreeSet::new();
        for i in &real_inputs {
            match i {
                Input::Msg(c, Message::Shutdown(_)) | Input::CloseTransport(c) | Input::DropFuture(c) => {
                    lenient.insert(*c);
                }
                Input::BrokerShutdown => {}
                _ => {}
            }
        }
        // nothing reaches a mute connection, nothing is demanded there
        for (i, c) in self.conns.iter().enumerate() {
            if c.mute {
                lenient.insert(i);
            }
        }
        struct St {
            model: Model,
            bind: Bindings,
            cur: Vec<usize>,
            detections: u64,
            clauses: Vec<String>,
        }
        // a dropped Connection future is gone from the moment it is dropped, i.e. before the
        // broker dequeues anything of this burst (what the connection queued earlier stays queued)
        // (the same holds for a transport that turns half-open: nothing of this burst has been
        // written yet)
        let mut model_inputs: Vec<Input> = real_inputs.iter().filter(|i| matches!(i, Input::DropFuture(_) | Input::WriteFault(_))).cloned().collect();
        model_inputs.extend(real_inputs.iter().filter(|i| !matches!(i, Input::DropFuture(_) | Input::WriteFault(_))).cloned());
        model_inputs.push(Input::EndOfBurst);
        let n = self.conns.len();
        for c in &mut self.cands {
            c.model.unobservable = lenient.clone();
        }
        let mut states: Vec<St> = self.cands.iter().map(|c| St { model: c.model.clone(), bind: c.bind.clone(), cur: vec![0; n], detections: 0, clauses: Vec::new() }).collect();
        let mut last_err: Option<Mismatch> = None;
        for input in &model_inputs {
            let mut next: Vec<St> = Vec::new();
            for st in states {
                let syn_input = match input {
                    Input::Msg(c, m) => Input::Msg(*c, st.bind.input_to_syn(*c, m)),
                    other => other.clone(),
                };
                let first_conn = match input {
                    Input::Msg(c, _) => Some(*c),
                    _ => None,
                };
                for (m2, out) in st.model.step(&syn_input) {
                    let mut s2 = St { model: m2, bind: st.bind.clone(), cur: st.cur.clone(), detections: st.detections, clauses: st.clauses.clone() };
                    s2.clauses.extend(out.notes.iter().filter_map(|n| n.strip_prefix("clause:")).map(|x| x.to_string()));
                    s2.detections += out.notes.iter().filter(|n| n.starts_with("dropped connection")).count() as u64;
                    match match_step(&mut s2.model, &mut s2.bind, &mut s2.cur, &out, &obs, first_conn, &lenient) {
                        Ok(()) => next.push(s2),
                        Err(mut e) => {
                            e.detail = format!("{} | input: {} | model notes: {:?}", e.detail, describe_input(&syn_input), out.notes);
                            if last_err.is_none() {
                                last_err = Some(e);
                            }
                        }
                    }
                }
            }
            if next.is_empty() {
                return Err(last_err.unwrap_or(Mismatch { what: "no-transition".into(), kind: "?".into(), detail: "model has no transition".into() }));
            }
            if next.len() > 24 {
                next.truncate(24);
            }
            states = next;
            last_err = None;
        }
        // end of burst: nothing may be left over, closed flags must agree
        let mut survivors: Vec<St> = Vec::new();
        for st in states {
            let mut err: Option<Mismatch> = None;
            for c in 0..n {
                if lenient.contains(&c) {
                    continue;
                }
                if st.cur[c] < obs[c].len() {
                    let m = &obs[c][st.cur[c]];
                    err = Some(Mismatch {
                        what: "unexpected-delivery".into(),
                        kind: kind_name(m),
                        detail: format!("conn {} received a message the model does not expect: {}", c, short(m)),
                    });
                    break;
                }
            }
            if err.is_none() {
                for c in 0..n {
                    let exp_closed = !matches!(st.model.conns[c].state, ConnState::Alive | ConnState::Mute);
                    let obs_closed = self.conns[c].end.peer_closed() || self.conns[c].dropped;
                    if exp_closed != obs_closed {
                        let k = match real_inputs.last() {
                            Some(Input::Msg(_, m)) => kind_name(m),
                            _ => "disconnect".into(),
                        };
                        err = Some(Mismatch {
                            what: if obs_closed { "connection-closed-unexpectedly".into() } else { "connection-not-closed".into() },
                            kind: k,
                            detail: format!("conn {}: model says closed={}, observed closed={} (result {:?})", c, exp_closed, obs_closed, self.conns[c].result.borrow()),
                        });
                        break;
                    }
                }
            }
            if err.is_none() {
                let starved = st.model.starved_channels();
                if !starved.is_empty() {
                    err = Some(Mismatch {
                        what: "sender-starved".into(),
                        kind: "AddChannelCapacity".into(),
                        detail: format!("channel {:?}: the sender has no announced credit left although the receiver has granted capacity", starved),
                    });
                }
            }
            match err {
                None => survivors.push(st),
                Some(e) => {
                    if last_err.is_none() {
                        last_err = Some(e);
                    }
                }
            }
        }
        if survivors.is_empty() {
            let mut e = last_err.unwrap();
            e.detail = format!("{} | burst: {:?}", e.detail, inputs.iter().map(describe_input).collect::<Vec<_>>());
            return Err(e);
        }
        // dedupe by state rendering
        let mut seen = BTreeSet::new();
        let mut cands = Vec::new();
        let mut det = 0;
        if let Some(first) = survivors.first() {
            for c in &first.clauses {
                *self.clauses.entry(c.clone()).or_insert(0) += 1;
            }
        }
        for st in survivors {
            let key = format!("{:?}{:?}{:?}{:?}{:?}{:?}", st.model.conns, st.model.objs, st.model.svcs, st.model.calls, st.model.chans, (&st.model.listeners, &st.model.intro));
            if seen.insert(key) {
                det = det.max(st.detections);
                cands.push(Cand { model: st.model, bind: st.bind });
            }
        }
        // release connection handles of connections that are gone (a handle keeps the id alive)
        for c in 0..n {
            if cands.iter().all(|k| k.model.conns[c].state == ConnState::Gone) {
                self.conns[c].handle.borrow_mut().take();
            }
        }
        self.zombie_detections += det;
        self.max_cands = self.max_cands.max(cands.len());
        self.cands = cands;
        Ok(())
    }

    /// Prunes candidate states with an observation of the broker's own books.
    pub fn prune_by_conn_count(&mut self, conns_in_broker: usize) -> Result<(), Mismatch> {
        let keep: Vec<Cand> = self.cands.iter().filter(|c| c.model.live_counts().conns == conns_in_broker).cloned().collect();
        if keep.is_empty() {
            return Err(Mismatch {
                what: "connection-count".into(),
                kind: "disconnect".into(),
                detail: format!("broker holds {} connections, model candidates hold {:?}", conns_in_broker, self.cands.iter().map(|c| c.model.live_counts().conns).collect::<Vec<_>>()),
            });
        }
        self.cands = keep;
        Ok(())
    }

    #[cfg(feature = "hooks")]
    pub fn snapshot(&mut self) -> Option<aldrin_broker::VerifSnapshot> {
        let mut bh = self.handle.clone();
        let (t, slot) = self.dx.spawn_out("snapshot", async move { bh.verif_snapshot().await.ok() });
        self.dx.run_task(t);
        self.dx.run_task(self.broker_task);
        self.dx.run_task(t);
        let r = slot.borrow_mut().take().flatten();
        r
    }

    pub fn statistics(&mut self) -> Option<aldrin_broker::BrokerStatistics> {
        let mut bh = self.handle.clone();
        let (t, slot) = self.dx.spawn_out("statistics", async move { bh.take_statistics().await.ok() });
        self.dx.run_task(t);
        self.dx.run_task(self.broker_task);
        self.dx.run_task(t);
        let r = slot.borrow_mut().take().flatten();
        r
    }

    /// Requests idle shutdown and reports whether `Broker::run` returned.
    pub fn shutdown_idle(&mut self) -> bool {
        let mut bh = self.handle.clone();
        let _ = now_or_never(async move { bh.shutdown_idle().await });
        self.settle();
        self.dx.is_done(self.broker_task)
    }

    pub fn quiesce_all(&mut self, budget: u64) -> RunEnd {
        let order: Vec<TaskId> = std::iter::once(self.broker_task).chain(self.conns.iter().map(|c| c.task)).collect();
        self.dx.run_order(&order, budget)
    }
}

impl Default for Rig {
    fn default() -> Self {
        Self::new()
    }
}

pub fn describe_input(i: &Input) -> String {
    match i {
        Input::Msg(c, m) => format!("#{} sends {}", c, short(m)),
        Input::CloseTransport(c) => format!("#{} transport closed", c),
        Input::HandleShutdown(c) => format!("#{} shutdown_connection via handle", c),
        Input::DropFuture(c) => format!("#{} Connection future dropped", c),
        Input::BrokerShutdown => "broker shutdown".into(),
        Input::WriteFault(c) => format!("#{} transport half-open: writes towards the client fail from now on", c),
        Input::EndOfBurst => "end of burst".into(),
        Input::Connect(v) => format!("connect 1.{}", v),
    }
}

fn exp_str(e: &Exp) -> String {
    let a: Vec<String> = e.alts.iter().map(short).collect();
    format!("-> #{} {}{}", e.conn, a.join(" | "), if e.optional { " (optional)" } else { "" })
}

#[allow(clippy::too_many_arguments)]
fn match_step(
    model: &mut Model,
    bind: &mut Bindings,
    cur: &mut [usize],
    out: &StepOut,
    obs: &[Vec<Message>],
    first_conn: Option<usize>,
    lenient: &BTreeSet<usize>,
) -> Result<(), Mismatch> {
    let n = obs.len();
    // this step's fresh cookies first, then older ones that were never seen
    let mut fresh: Vec<(CookieKind, Uuid, bool)> = out.fresh.iter().map(|(k, u)| (*k, *u, false)).collect();
    fresh.extend(bind.pending.iter().map(|(k, u)| (*k, *u, false)));
    let mut fresh_serials: Vec<(usize, u32, bool)> = out.fresh_serials.iter().map(|(c, s)| (*c, *s, false)).collect();
    let mut order: Vec<usize> = Vec::new();
    if let Some(f) = first_conn {
        if f < n {
            order.push(f);
        }
    }
    for c in 0..n {
        if Some(c) != first_conn {
            order.push(c);
        }
    }
    for c in order {
        let exps: Vec<&Exp> = out.exp.iter().filter(|e| e.conn == c).collect();
        let mut matched = vec![false; exps.len()];
        if out.unordered_teardown {
            // everything up to the end is consumed; required messages must be among it
            for m in &obs[c][cur[c]..] {
                if let Some(i) = (0..exps.len()).find(|&i| !matched[i] && !exps[i].optional && exps[i].alts.iter().any(|a| msg_eq(a, m))) {
                    matched[i] = true;
                }
            }
            cur[c] = obs[c].len();
            if !lenient.contains(&c) {
                for (i, e) in exps.iter().enumerate() {
                    if !matched[i] && !e.optional {
                        return Err(Mismatch {
                            what: "missing-or-different-delivery".into(),
                            kind: kind_name(&e.alts[0]),
                            detail: format!("expected {} during the teardown of all connections", exp_str(e)),
                        });
                    }
                }
            }
            continue;
        }
        loop {
            if cur[c] >= obs[c].len() {
                break;
            }
            if exps.is_empty() {
                // only credit announcements can arrive unannounced
                if !matches!(obs[c][cur[c]], Message::AddChannelCapacity(_)) {
                    break;
                }
            }
            let mut flex = false;
            // translate into the synthetic space, tentatively binding fresh ids; with several
            // unseen cookies of one kind every pairing of the first unknown cookie is tried
            let mut tent_c: Vec<(usize, Uuid)> = Vec::new();
            let mut tent_s: Option<(usize, u8, u32)> = None;
            let mut hit: Option<usize> = None;
            let rotations = 1 + fresh.iter().filter(|f| !f.2).count().min(8);
            'rot: for rot in 0..rotations {
                let mut msg = obs[c][cur[c]].clone();
                tent_c.clear();
                let mut skip = rot;
                visit_cookies(&mut msg, &mut |k, u| {
                    if let Some(s) = bind.c_r2s.get(u) {
                        *u = *s;
                    } else if let Some((i, _)) = tent_c.iter().find(|(_, r)| r == u) {
                        *u = fresh[*i].1;
                    } else if !model::is_syn(*u) {
                        let avail: Vec<usize> = (0..fresh.len()).filter(|&i| fresh[i].0 == k && !fresh[i].2 && !tent_c.iter().any(|(j, _)| *j == i)).collect();
                        if !avail.is_empty() {
                            let i = avail[skip.min(avail.len() - 1)];
                            skip = 0;
                            tent_c.push((i, *u));
                            *u = fresh[i].1;
                        }
                    }
                });
                // a serial chosen by the broker: try every synthetic serial handed out to this
                // connection in this step (several calls / queries may start in one step)
                tent_s = None;
                let mut serial_cands: Vec<Option<usize>> = vec![None];
                let mut space_real: Option<(u8, u32)> = None;
                if let Some((space, s)) = broker_serial_out(&mut msg) {
                    if let Some(syn) = bind.s_r2s.get(&(c, space, *s)) {
                        *s = *syn;
                    } else {
                        space_real = Some((space, *s));
                        serial_cands = (0..fresh_serials.len()).filter(|&i| fresh_serials[i].0 == c && !fresh_serials[i].2).map(Some).collect();
                        if serial_cands.is_empty() {
                            serial_cands = vec![None];
                        }
                    }
                }
                for cand in serial_cands {
                    if let (Some(i), Some((space, real))) = (cand, space_real) {
                        if let Some((_, s)) = broker_serial_out(&mut msg) {
                            *s = fresh_serials[i].1;
                        }
                        tent_s = Some((i, space, real));
                    }
                    hit = (0..exps.len()).find(|&i| !matched[i] && exps[i].alts.iter().any(|a| msg_eq(a, &msg)));
                    if hit.is_some() {
                        break 'rot;
                    }
                    tent_s = None;
                }
                if tent_c.is_empty() {
                    // nothing to rotate
                    if model.flex_accept(c, &msg) {
                        hit = None;
                        flex = true;
                    }
                    break;
                }
            }
            if let Some(i) = hit {
                matched[i] = true;
                for (fi, real) in tent_c {
                    fresh[fi].2 = true;
                    bind.c_r2s.insert(real, fresh[fi].1);
                    bind.c_s2r.insert(fresh[fi].1, real);
                }
                if let Some((fi, space, real)) = tent_s {
                    fresh_serials[fi].2 = true;
                    let syn = fresh_serials[fi].1;
                    bind.s_r2s.insert((c, space, real), syn);
                    bind.s_s2r.insert(syn, (c, real));
                    bind.s_hist.insert(syn, (c, real));
                }
                cur[c] += 1;
            } else if flex {
                cur[c] += 1;
            } else {
                break;
            }
        }
        if lenient.contains(&c) {
            continue;
        }
        for (i, e) in exps.iter().enumerate() {
            if !matched[i] && !e.optional {
                let next = obs[c].get(cur[c]).map(short).unwrap_or_else(|| "<nothing more>".into());
                return Err(Mismatch {
                    what: "missing-or-different-delivery".into(),
                    kind: kind_name(&e.alts[0]),
                    detail: format!("expected {} ; next observed on that connection: {}", exp_str(e), next),
                });
            }
        }
    }
    // cookies nobody has seen yet stay bindable in later steps
    bind.pending = fresh.iter().filter(|f| !f.2).map(|f| (f.0, f.1)).collect();
    if bind.pending.len() > 48 {
        let cut = bind.pending.len() - 48;
        bind.pending.drain(..cut);
    }
    for (c, s) in &out.released_serials {
        if let Some((bc, real)) = bind.s_s2r.remove(s) {
            debug_assert_eq!(bc, *c);
            bind.s_r2s.retain(|_, v| *v != *s);
            let _ = real;
        }
    }
    Ok(())
}
