//! Field visitors over `Message`: every cookie, the broker-chosen serials, payload-insensitive
//! equality (payloads compared by value through the reference decoder when the bytes differ).

use super::model::CookieKind;
use crate::codec::rv;
use aldrin_core::message::*;
use aldrin_core::{BusEvent, ObjectId, ServiceId};
use uuid::Uuid;

fn visit_object_id(o: &mut ObjectId, f: &mut dyn FnMut(CookieKind, &mut Uuid)) {
    f(CookieKind::Object, &mut o.cookie.0);
}

fn visit_service_id(s: &mut ServiceId, f: &mut dyn FnMut(CookieKind, &mut Uuid)) {
    visit_object_id(&mut s.object_id, f);
    f(CookieKind::Service, &mut s.cookie.0);
}

/// Calls `f` on every cookie field of the message.
pub fn visit_cookies(m: &mut Message, f: &mut dyn FnMut(CookieKind, &mut Uuid)) {
    use CookieKind::*;
    match m {
        Message::CreateObjectReply(x) => {
            if let CreateObjectResult::Ok(c) = &mut x.result {
                f(Object, &mut c.0)
            }
        }
        Message::DestroyObject(x) => f(Object, &mut x.cookie.0),
        Message::CreateService(x) => f(Object, &mut x.object_cookie.0),
        Message::CreateService2(x) => f(Object, &mut x.object_cookie.0),
        Message::CreateServiceReply(x) => {
            if let CreateServiceResult::Ok(c) = &mut x.result {
                f(Service, &mut c.0)
            }
        }
        Message::DestroyService(x) => f(Service, &mut x.cookie.0),
        Message::CallFunction(x) => f(Service, &mut x.service_cookie.0),
        Message::CallFunction2(x) => f(Service, &mut x.service_cookie.0),
        Message::SubscribeEvent(x) => f(Service, &mut x.service_cookie.0),
        Message::UnsubscribeEvent(x) => f(Service, &mut x.service_cookie.0),
        Message::EmitEvent(x) => f(Service, &mut x.service_cookie.0),
        Message::QueryServiceVersion(x) => f(Service, &mut x.cookie.0),
        Message::QueryServiceInfo(x) => f(Service, &mut x.cookie.0),
        Message::ServiceDestroyed(x) => f(Service, &mut x.service_cookie.0),
        Message::SubscribeService(x) => f(Service, &mut x.service_cookie.0),
        Message::UnsubscribeService(x) => f(Service, &mut x.service_cookie.0),
        Message::SubscribeAllEvents(x) => f(Service, &mut x.service_cookie.0),
        Message::UnsubscribeAllEvents(x) => f(Service, &mut x.service_cookie.0),
        Message::CreateChannelReply(x) => f(Channel, &mut x.cookie.0),
        Message::CloseChannelEnd(x) => f(Channel, &mut x.cookie.0),
        Message::ChannelEndClosed(x) => f(Channel, &mut x.cookie.0),
        Message::ClaimChannelEnd(x) => f(Channel, &mut x.cookie.0),
        Message::ChannelEndClaimed(x) => f(Channel, &mut x.cookie.0),
        Message::SendItem(x) => f(Channel, &mut x.cookie.0),
        Message::ItemReceived(x) => f(Channel, &mut x.cookie.0),
        Message::AddChannelCapacity(x) => f(Channel, &mut x.cookie.0),
        Message::CreateBusListenerReply(x) => f(Listener, &mut x.cookie.0),
        Message::DestroyBusListener(x) => f(Listener, &mut x.cookie.0),
        Message::AddBusListenerFilter(x) => f(Listener, &mut x.cookie.0),
        Message::RemoveBusListenerFilter(x) => f(Listener, &mut x.cookie.0),
        Message::ClearBusListenerFilters(x) => f(Listener, &mut x.cookie.0),
        Message::StartBusListener(x) => f(Listener, &mut x.cookie.0),
        Message::StopBusListener(x) => f(Listener, &mut x.cookie.0),
        Message::BusListenerCurrentFinished(x) => f(Listener, &mut x.cookie.0),
        Message::EmitBusEvent(x) => {
            if let Some(c) = &mut x.cookie {
                f(Listener, &mut c.0);
            }
            match &mut x.event {
                BusEvent::ObjectCreated(o) | BusEvent::ObjectDestroyed(o) => visit_object_id(o, f),
                BusEvent::ServiceCreated(s) | BusEvent::ServiceDestroyed(s) => visit_service_id(s, f),
            }
        }
        _ => {}
    }
}

/// The serial field of messages whose serial lives in a broker-chosen space (0 = calls, 1 =
/// introspection queries; the two are numbered independently), for messages travelling
/// broker -> client.
pub fn broker_serial_out(m: &mut Message) -> Option<(u8, &mut u32)> {
    match m {
        Message::CallFunction(x) => Some((0, &mut x.serial)),
        Message::CallFunction2(x) => Some((0, &mut x.serial)),
        Message::AbortFunctionCall(x) => Some((0, &mut x.serial)),
        Message::QueryIntrospection(x) => Some((1, &mut x.serial)),
        _ => None,
    }
}

/// Same for messages travelling client -> broker.
pub fn broker_serial_in(m: &mut Message) -> Option<(u8, &mut u32)> {
    match m {
        Message::CallFunctionReply(x) => Some((0, &mut x.serial)),
        Message::QueryIntrospectionReply(x) => Some((1, &mut x.serial)),
        _ => None,
    }
}

pub fn kind_name(m: &Message) -> String {
    format!("{:?}", m.kind())
}

pub fn payload_bytes(m: &Message) -> Option<Vec<u8>> {
    m.value().map(|v| {
        let s: &[u8] = v.as_ref();
        s.to_vec()
    })
}

/// Equality up to the encoding of the payload: payload bytes equal, or both decode (reference
/// decoder) to the same value.
pub fn msg_eq(a: &Message, b: &Message) -> bool {
    if a == b {
        return true;
    }
    if a.kind() != b.kind() {
        return false;
    }
    let (Some(pa), Some(pb)) = (payload_bytes(a), payload_bytes(b)) else {
        return false;
    };
    // compare everything but the payload
    let mut a2 = a.clone();
    let mut b2 = b.clone();
    let unit = aldrin_core::SerializedValue::serialize(()).expect("unit");
    if let Some(v) = a2.value_mut() {
        *v = unit.clone();
    }
    if let Some(v) = b2.value_mut() {
        *v = unit.clone();
    }
    if a2 != b2 {
        return false;
    }
    if pa == pb {
        return true;
    }
    match (decode_all(&pa), decode_all(&pb)) {
        (Some(x), Some(y)) => x.normalize() == y.normalize(),
        _ => false,
    }
}

pub fn decode_all(bytes: &[u8]) -> Option<rv::RV> {
    let (v, n) = rv::ref_skip(bytes).ok()?;
    if n != bytes.len() {
        return None;
    }
    Some(v)
}

/// True if the payload contains a container encoding introduced with protocol 1.20.
pub fn payload_has_v2_kind(bytes: &[u8]) -> Option<bool> {
    rv::scan_kinds(bytes).ok().map(|ks| ks.iter().any(|&k| rv::is_v2_kind(k)))
}
