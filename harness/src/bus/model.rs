//! BusModel: executable sequential specification of the aldrin bus (DESIGN.md 2.3).
//!
//! Written from the property statements (C02-C05, C09-C12) and the protocol as exercised by the
//! conformance scenarios. The model lives in a *synthetic* id space: cookies it hands out are
//! drawn from a recognisable range and the rig keeps the bijection to the broker's real UUIDs;
//! serials the broker chooses towards a callee are synthetic as well. `step` is a
//! nondeterministic transition function: it returns every (next state, expected output) pair the
//! statements allow (lazy detection of a dropped connection task, the broker's free choice of
//! which registrant to ask for an introspection).

use aldrin_core::message::*;
use aldrin_core::{
    BusEvent, BusListenerCookie, BusListenerFilter, BusListenerScope, ChannelCookie, ChannelEnd, ChannelEndWithCapacity,
    ObjectCookie, ObjectId, ObjectUuid, SerializedValue, ServiceCookie, ServiceId, ServiceInfo, ServiceUuid, TypeId,
};
use std::collections::{BTreeMap, BTreeSet};
use uuid::Uuid;

pub const SYN_BASE: u128 = 0x5EED_0000_0000_4000_8000_0000_0000_0000;
pub const SYN_SERIAL_BASE: u32 = 0x7100_0000;

#[derive(Debug, Clone, Copy, PartialEq, Eq, PartialOrd, Ord)]
pub enum CookieKind {
    Object,
    Service,
    Channel,
    Listener,
}

pub fn syn_cookie(kind: CookieKind, n: u64) -> Uuid {
    Uuid::from_u128(SYN_BASE | ((kind as u128) << 64) | n as u128)
}

pub fn is_syn(u: Uuid) -> bool {
    (u.as_u128() & 0xFFFF_FFFF_FFFF_0000_0000_0000_0000_0000) == (SYN_BASE & 0xFFFF_FFFF_FFFF_0000_0000_0000_0000_0000)
}

#[derive(Debug, Clone, Copy, PartialEq, Eq)]
pub enum ConnState {
    Alive,
    /// its Connection future was dropped; the broker has not noticed yet
    Zombie,
    /// half-open transport: whatever the broker's connection task writes towards the client
    /// fails, while the client can still send; nobody has noticed yet
    Mute,
    Gone,
}

#[derive(Debug, Clone)]
pub struct MConn {
    pub version: u32,
    pub state: ConnState,
    /// caller serial -> call id
    pub calls: BTreeMap<u32, u64>,
    pub introspection: BTreeSet<Uuid>,
}

#[derive(Debug, Clone)]
pub struct MObj {
    pub uuid: ObjectUuid,
    pub cookie: ObjectCookie,
    pub owner: usize,
    pub services: BTreeSet<Uuid>,
}

#[derive(Debug, Clone)]
pub struct MSvc {
    pub obj_uuid: ObjectUuid,
    pub obj_cookie: ObjectCookie,
    pub uuid: ServiceUuid,
    pub cookie: ServiceCookie,
    pub owner: usize,
    pub info: ServiceInfo,
    pub ev_subs: BTreeMap<u32, BTreeSet<usize>>,
    pub all_subs: BTreeSet<usize>,
    pub svc_subs: BTreeSet<usize>,
}

impl MSvc {
    pub fn id(&self) -> ServiceId {
        ServiceId::new(ObjectId::new(self.obj_uuid, self.obj_cookie), self.uuid, self.cookie)
    }
}

#[derive(Debug, Clone)]
pub struct MCall {
    pub id: u64,
    pub caller: usize,
    pub caller_serial: u32,
    pub callee: usize,
    pub svc: Uuid,
    pub aborted: bool,
    /// synthetic serial under which the callee knows the call
    pub callee_serial: u32,
}

#[derive(Debug, Clone, PartialEq, Eq)]
pub enum EndSt {
    Unclaimed,
    Claimed { owner: usize, credit: u64 },
    Closed,
}

#[derive(Debug, Clone)]
pub struct MChan {
    pub cookie: ChannelCookie,
    pub sender: EndSt,
    pub receiver: EndSt,
    /// items forwarded / capacity granted in total (conservation evidence)
    pub forwarded: u64,
    pub granted: u64,
    pub announced: u64,
    /// receiver credit at the moment the receiver end was closed
    pub rcap_at_close: u64,
}

#[derive(Debug, Clone)]
pub struct MListener {
    pub cookie: BusListenerCookie,
    pub owner: usize,
    pub filters: BTreeSet<BusListenerFilter>,
    pub scope: Option<BusListenerScope>,
}

#[derive(Debug, Clone)]
pub struct MIntro {
    pub registrants: BTreeSet<usize>,
    pub cached: Option<SerializedValue>,
    /// (conn asked, synthetic serial)
    pub asked: Option<(usize, u32)>,
    /// (conn, its serial) waiting for the answer
    pub waiting: Vec<(usize, u32)>,
}

#[derive(Debug, Clone)]
pub enum Input {
    /// a message (synthetic id space) sent by a connection and dequeued by the broker
    Msg(usize, Message),
    /// the client side closes the transport
    CloseTransport(usize),
    /// BrokerHandle::shutdown_connection
    HandleShutdown(usize),
    /// the Connection future is dropped
    DropFuture(usize),
    /// BrokerHandle::shutdown
    BrokerShutdown,
    /// a new connection with this negotiated minor version joins
    Connect(u32),
    /// from now on every write of the broker's connection task towards this client fails
    WriteFault(usize),
    /// everything injected in one go has been dequeued: connection tasks that failed on a write
    /// in the meantime have reported that
    EndOfBurst,
}

#[derive(Debug, Clone)]
pub struct Exp {
    pub conn: usize,
    /// any one of these is acceptable
    pub alts: Vec<Message>,
    pub optional: bool,
}

#[derive(Debug, Clone, Default)]
pub struct StepOut {
    pub exp: Vec<Exp>,
    /// connections that the broker ends in this step
    pub closed: Vec<usize>,
    /// cookies handed out in this step
    pub fresh: Vec<(CookieKind, Uuid)>,
    /// synthetic callee / query serials handed out in this step: (conn, serial)
    pub fresh_serials: Vec<(usize, u32)>,
    /// synthetic serials whose binding ends with this step
    pub released_serials: Vec<(usize, u32)>,
    /// human-readable notes (which clause produced what)
    pub notes: Vec<String>,
    /// teardown of everything at once: the order in which the broker removes connections is
    /// free, so which teardown notifications a connection still sees before its own Shutdown
    /// is too; only the required messages must be present
    pub unordered_teardown: bool,
}

#[derive(Debug, Clone)]
pub struct Model {
    pub conns: Vec<MConn>,
    pub objs: BTreeMap<Uuid, MObj>,
    pub svcs: BTreeMap<Uuid, MSvc>,
    pub calls: BTreeMap<u64, MCall>,
    pub chans: BTreeMap<Uuid, MChan>,
    pub listeners: BTreeMap<Uuid, MListener>,
    pub intro: BTreeMap<Uuid, MIntro>,
    pub next_cookie: u64,
    pub next_call: u64,
    pub next_serial: u32,
    pub shut_down: bool,
    // nondeterminism enumeration
    choices: Vec<usize>,
    choice_pos: usize,
    choice_arity: Vec<usize>,
    /// zombies to which this step may have attempted a delivery (credit announcements, whose
    /// timing is the broker's policy, and optional deliveries)
    touched_zombies: BTreeSet<usize>,
    /// zombies to which this step definitely attempted a delivery whose failure the broker acts on
    must_notice: BTreeSet<usize>,
    /// mute connections to which something was (resp. may have been) delivered since the last
    /// end of burst: their connection task fails on the write and reports its end
    mute_must: BTreeSet<usize>,
    mute_maybe: BTreeSet<usize>,
    /// connections whose deliveries cannot be observed in the current burst (they terminate
    /// themselves while it runs); set by the rig
    pub unobservable: BTreeSet<usize>,
}

fn reply_invalid_direction(m: &Message) -> bool {
    matches!(
        m,
        Message::Connect(_)
            | Message::ConnectReply(_)
            | Message::CreateObjectReply(_)
            | Message::DestroyObjectReply(_)
            | Message::CreateServiceReply(_)
            | Message::DestroyServiceReply(_)
            | Message::SubscribeEventReply(_)
            | Message::QueryServiceVersionReply(_)
            | Message::CreateChannelReply(_)
            | Message::CloseChannelEndReply(_)
            | Message::ChannelEndClosed(_)
            | Message::ClaimChannelEndReply(_)
            | Message::ChannelEndClaimed(_)
            | Message::ItemReceived(_)
            | Message::SyncReply(_)
            | Message::ServiceDestroyed(_)
            | Message::CreateBusListenerReply(_)
            | Message::DestroyBusListenerReply(_)
            | Message::StartBusListenerReply(_)
            | Message::StopBusListenerReply(_)
            | Message::EmitBusEvent(_)
            | Message::BusListenerCurrentFinished(_)
            | Message::Connect2(_)
            | Message::ConnectReply2(_)
            | Message::QueryServiceInfoReply(_)
            | Message::SubscribeServiceReply(_)
            | Message::SubscribeAllEventsReply(_)
            | Message::UnsubscribeAllEventsReply(_)
    )
}

/// Minimum negotiated minor version at which a client may send this kind (None: always).
pub fn min_version_to_send(m: &Message) -> Option<u32> {
    match m {
        Message::AbortFunctionCall(_) => Some(16),
        Message::RegisterIntrospection(_)
        | Message::QueryIntrospection(_)
        | Message::QueryIntrospectionReply(_)
        | Message::CreateService2(_)
        | Message::QueryServiceInfo(_) => Some(17),
        Message::SubscribeService(_)
        | Message::UnsubscribeService(_)
        | Message::SubscribeAllEvents(_)
        | Message::UnsubscribeAllEvents(_) => Some(18),
        Message::CallFunction2(_) => Some(19),
        _ => None,
    }
}

/// Minimum negotiated minor version at which the broker may send this kind to a client.
pub fn min_version_to_receive(m: &Message) -> u32 {
    match m {
        Message::AbortFunctionCall(_) => 16,
        Message::QueryIntrospection(_) | Message::QueryIntrospectionReply(_) | Message::QueryServiceInfoReply(_) => 17,
        Message::SubscribeServiceReply(_)
        | Message::SubscribeAllEvents(_)
        | Message::SubscribeAllEventsReply(_)
        | Message::UnsubscribeAllEvents(_)
        | Message::UnsubscribeAllEventsReply(_) => 18,
        Message::CallFunction2(_) => 19,
        Message::ConnectReply2(_) => 14,
        _ => 14,
    }
}

impl Default for Model {
    fn default() -> Self {
        Self::new()
    }
}

impl Model {
    pub fn new() -> Self {
        Model {
            conns: Vec::new(),
            objs: BTreeMap::new(),
            svcs: BTreeMap::new(),
            calls: BTreeMap::new(),
            chans: BTreeMap::new(),
            listeners: BTreeMap::new(),
            intro: BTreeMap::new(),
            next_cookie: 1,
            next_call: 1,
            next_serial: SYN_SERIAL_BASE,
            shut_down: false,
            choices: Vec::new(),
            choice_pos: 0,
            choice_arity: Vec::new(),
            touched_zombies: BTreeSet::new(),
            must_notice: BTreeSet::new(),
            mute_must: BTreeSet::new(),
            mute_maybe: BTreeSet::new(),
            unobservable: BTreeSet::new(),
        }
    }

    // ------------------------------------------------------------------ nondeterminism

    fn choose(&mut self, n: usize) -> usize {
        debug_assert!(n > 0);
        let i = self.choice_pos;
        self.choice_pos += 1;
        if i < self.choices.len() {
            self.choice_arity[i] = n;
            self.choices[i].min(n - 1)
        } else {
            self.choices.push(0);
            self.choice_arity.push(n);
            0
        }
    }

    /// All transitions the statements allow for `input`.
    pub fn step(&self, input: &Input) -> Vec<(Model, StepOut)> {
        let mut results = Vec::new();
        let mut choices: Vec<usize> = Vec::new();
        loop {
            let mut m = self.clone();
            m.choice_arity = vec![1; choices.len()];
            m.choices = choices;
            m.choice_pos = 0;
            m.touched_zombies.clear();
            m.must_notice.clear();
            let mut out = StepOut::default();
            m.apply(input, &mut out);
            // detection of dropped connection tasks: a failed delivery that the broker checks
            // removes the connection once the current message has been handled; a delivery that
            // may or may not have been attempted (credit announcement) may or may not do so
            loop {
                let must: Vec<usize> = m.must_notice.iter().copied().filter(|&z| m.conns[z].state == ConnState::Zombie).collect();
                let maybe: Vec<usize> = m.touched_zombies.iter().copied().filter(|&z| m.conns[z].state == ConnState::Zombie && !must.contains(&z)).collect();
                m.touched_zombies.clear();
                m.must_notice.clear();
                if must.is_empty() && maybe.is_empty() {
                    // at the end of a burst the two kinds of late notice feed each other
                    let pending = m.mute_must.iter().chain(m.mute_maybe.iter()).any(|&z| m.conns[z].state == ConnState::Mute);
                    if matches!(input, Input::EndOfBurst) && pending {
                        m.apply(input, &mut out);
                        continue;
                    }
                    break;
                }
                for z in must {
                    if m.conns[z].state == ConnState::Zombie {
                        out.notes.push(format!("dropped connection {} noticed", z));
                        Self::clause(&mut out, "delivery to a dropped connection task fails: that connection is removed");
                        m.disconnect(z, &mut out);
                    }
                }
                for z in maybe {
                    if m.conns[z].state == ConnState::Zombie && m.choose(2) == 1 {
                        out.notes.push(format!("dropped connection {} noticed", z));
                        m.disconnect(z, &mut out);
                    }
                }
            }
            let mut next = std::mem::take(&mut m.choices);
            let mut ar = std::mem::take(&mut m.choice_arity);
            let used = m.choice_pos;
            next.truncate(used);
            ar.truncate(used);
            m.choice_pos = 0;
            results.push((m, out));
            // odometer over the arities seen in this run
            let mut advanced = false;
            while let Some(last) = next.pop() {
                let a = ar.pop().unwrap_or(1);
                if last + 1 < a {
                    next.push(last + 1);
                    advanced = true;
                    break;
                }
            }
            if !advanced || results.len() >= 64 {
                break;
            }
            choices = next;
        }
        results
    }

    // ------------------------------------------------------------------ helpers

    fn clause(out: &mut StepOut, name: &str) {
        out.notes.push(format!("clause:{}", name));
    }

    fn in_books(&self, c: usize) -> bool {
        self.conns[c].state != ConnState::Gone
    }

    fn send(&mut self, out: &mut StepOut, conn: usize, msg: impl Into<Message>) {
        self.send_alts(out, conn, vec![msg.into()], false);
    }

    fn send_alts(&mut self, out: &mut StepOut, conn: usize, alts: Vec<Message>, optional: bool) {
        match self.conns[conn].state {
            ConnState::Alive => out.exp.push(Exp { conn, alts, optional }),
            ConnState::Zombie => {
                // the broker does not look at the outcome of these four deliveries
                let ignored = alts.iter().all(|m| matches!(m, Message::Shutdown(_) | Message::SubscribeEvent(_) | Message::SubscribeAllEvents(_) | Message::UnsubscribeAllEvents(_)));
                if ignored {
                } else if optional {
                    self.touched_zombies.insert(conn);
                } else {
                    self.must_notice.insert(conn);
                }
            }
            ConnState::Mute => {
                if optional {
                    self.mute_maybe.insert(conn);
                } else {
                    self.mute_must.insert(conn);
                }
            }
            ConnState::Gone => {}
        }
    }

    fn fresh_cookie(&mut self, out: &mut StepOut, kind: CookieKind) -> Uuid {
        let u = syn_cookie(kind, self.next_cookie);
        self.next_cookie += 1;
        out.fresh.push((kind, u));
        u
    }

    fn fresh_serial(&mut self, out: &mut StepOut, conn: usize) -> u32 {
        let s = self.next_serial;
        self.next_serial += 1;
        out.fresh_serials.push((conn, s));
        s
    }

    fn close_conn(&mut self, out: &mut StepOut, c: usize, why: &str) {
        if self.in_books(c) {
            out.notes.push(format!("connection {} closed by broker: {}", c, why));
            self.disconnect(c, out);
        }
    }

    fn svc_by_cookie(&self, c: ServiceCookie) -> Option<&MSvc> {
        self.svcs.get(&c.0)
    }

    fn obj_by_cookie(&self, c: ObjectCookie) -> Option<&MObj> {
        self.objs.values().find(|o| o.cookie == c)
    }

    pub fn live_counts(&self) -> Counts {
        Counts {
            conns: self.conns.iter().filter(|c| c.state != ConnState::Gone).count(),
            objects: self.objs.len(),
            services: self.svcs.len(),
            channels: self.chans.len(),
            listeners: self.listeners.len(),
            calls: self.calls.len(),
        }
    }

    // ------------------------------------------------------------------ transitions

    fn apply(&mut self, input: &Input, out: &mut StepOut) {
        match input {
            Input::Connect(v) => {
                self.conns.push(MConn { version: *v, state: ConnState::Alive, calls: BTreeMap::new(), introspection: BTreeSet::new() });
            }
            Input::Msg(c, msg) => {
                if !self.in_books(*c) || self.shut_down {
                    out.notes.push("sender not known to the broker any more: ignored".into());
                    return;
                }
                if self.conns[*c].state == ConnState::Zombie && self.choose(2) == 1 {
                    // the reply to a connection whose task was dropped cannot be delivered; the
                    // broker may notice that before the request has had any effect
                    out.notes.push(format!("dropped connection {} noticed at its own request", c));
                    self.disconnect(*c, out);
                    return;
                }
                self.message(*c, msg.clone(), out);
            }
            Input::CloseTransport(c) => {
                if self.in_books(*c) {
                    self.disconnect(*c, out);
                }
            }
            Input::HandleShutdown(c) => {
                if self.in_books(*c) {
                    self.send(out, *c, Shutdown);
                    self.disconnect(*c, out);
                }
            }
            Input::DropFuture(c) => {
                if matches!(self.conns[*c].state, ConnState::Alive | ConnState::Mute) {
                    self.conns[*c].state = ConnState::Zombie;
                }
            }
            Input::WriteFault(c) => {
                if self.conns[*c].state == ConnState::Alive {
                    self.conns[*c].state = ConnState::Mute;
                }
            }
            Input::EndOfBurst => {
                // cascades: the teardown of one connection may write to another mute one
                loop {
                    let must: Vec<usize> = self.mute_must.iter().copied().filter(|&z| self.conns[z].state == ConnState::Mute).collect();
                    let maybe: Vec<usize> = self.mute_maybe.iter().copied().filter(|&z| self.conns[z].state == ConnState::Mute && !must.contains(&z)).collect();
                    self.mute_must.clear();
                    self.mute_maybe.clear();
                    if must.is_empty() && maybe.is_empty() {
                        break;
                    }
                    for z in must {
                        if self.conns[z].state == ConnState::Mute {
                            Self::clause(out, "write towards a client fails: its connection task ends and the broker cleans up");
                            out.notes.push(format!("mute connection {} reported its write failure", z));
                            self.disconnect(z, out);
                        }
                    }
                    for z in maybe {
                        if self.conns[z].state == ConnState::Mute && self.choose(2) == 1 {
                            out.notes.push(format!("mute connection {} reported its write failure", z));
                            self.disconnect(z, out);
                        }
                    }
                }
            }
            Input::BrokerShutdown => {
                let all: Vec<usize> = (0..self.conns.len()).filter(|&c| self.in_books(c)).collect();
                // every connection is told; nothing else is owed once the broker stops
                for &c in &all {
                    self.send(out, c, Shutdown);
                }
                let mut scratch = StepOut::default();
                for &c in &all {
                    self.disconnect(c, &mut scratch);
                }
                out.closed.extend(scratch.closed);
                out.released_serials.extend(scratch.released_serials);
                out.unordered_teardown = true;
                // notifications caused by the teardown itself may or may not be seen by peers
                // that are being shut down in the same step
                for mut e in scratch.exp {
                    e.optional = true;
                    out.exp.push(e);
                }
                self.shut_down = true;
            }
        }
    }

    fn message(&mut self, c: usize, msg: Message, out: &mut StepOut) {
        let v = self.conns[c].version;
        if reply_invalid_direction(&msg) {
            return self.close_conn(out, c, "message kind not valid from a client");
        }
        if let Some(minv) = min_version_to_send(&msg) {
            if v < minv {
                return self.close_conn(out, c, "message kind newer than the negotiated version");
            }
        }
        match msg {
            Message::Shutdown(_) => {
                self.send(out, c, Shutdown);
                self.disconnect(c, out);
            }
            Message::Sync(m) => self.send(out, c, SyncReply { serial: m.serial }),
            Message::CreateObject(m) => self.create_object(c, m, out),
            Message::DestroyObject(m) => self.destroy_object_req(c, m, out),
            Message::CreateService(m) => {
                let info = ServiceInfo::new(m.version);
                self.create_service(c, m.serial, m.object_cookie, m.uuid, Some(info), out)
            }
            Message::CreateService2(m) => {
                let info = m.value.deserialize::<ServiceInfo>().ok().map(|i| if v < 18 { i.set_subscribe_all(false) } else { i });
                self.create_service(c, m.serial, m.object_cookie, m.uuid, info, out)
            }
            Message::DestroyService(m) => self.destroy_service_req(c, m, out),
            Message::QueryServiceVersion(m) => {
                let result = match self.svc_by_cookie(m.cookie) {
                    Some(s) => QueryServiceVersionResult::Ok(s.info.version()),
                    None => QueryServiceVersionResult::InvalidService,
                };
                self.send(out, c, QueryServiceVersionReply { serial: m.serial, result });
            }
            Message::QueryServiceInfo(m) => {
                let result = match self.svc_by_cookie(m.cookie) {
                    Some(s) => QueryServiceInfoResult::Ok(SerializedValue::serialize(s.info).expect("service info")),
                    None => QueryServiceInfoResult::InvalidService,
                };
                self.send(out, c, QueryServiceInfoReply { serial: m.serial, result });
            }
            Message::CallFunction(m) => self.call(c, m.serial, m.service_cookie, m.function, None, m.value, out),
            Message::CallFunction2(m) => self.call(c, m.serial, m.service_cookie, m.function, m.version, m.value, out),
            Message::CallFunctionReply(m) => self.call_reply(c, m, out),
            Message::AbortFunctionCall(m) => {
                if let Some(&id) = self.conns[c].calls.get(&m.serial) {
                    self.abort_call(id, true, out);
                }
            }
            Message::SubscribeEvent(m) => self.subscribe_event(c, m, out),
            Message::UnsubscribeEvent(m) => self.unsubscribe_event(c, m.service_cookie, m.event, out),
            Message::SubscribeAllEvents(m) => self.subscribe_all(c, m, out),
            Message::UnsubscribeAllEvents(m) => self.unsubscribe_all(c, m, out),
            Message::SubscribeService(m) => {
                if let Some(s) = self.svcs.get_mut(&m.service_cookie.0) {
                    s.svc_subs.insert(c);
                    self.send(out, c, SubscribeServiceReply { serial: m.serial, result: SubscribeServiceResult::Ok });
                } else {
                    self.send(out, c, SubscribeServiceReply { serial: m.serial, result: SubscribeServiceResult::InvalidService });
                }
            }
            Message::UnsubscribeService(m) => {
                if let Some(s) = self.svcs.get_mut(&m.service_cookie.0) {
                    s.svc_subs.remove(&c);
                }
            }
            Message::EmitEvent(m) => self.emit_event(c, m, out),
            Message::CreateChannel(m) => self.create_channel(c, m, out),
            Message::ClaimChannelEnd(m) => self.claim_channel_end(c, m, out),
            Message::CloseChannelEnd(m) => self.close_channel_end_req(c, m, out),
            Message::SendItem(m) => self.send_item(c, m, out),
            Message::AddChannelCapacity(m) => self.add_capacity(c, m, out),
            Message::CreateBusListener(m) => {
                let k = self.fresh_cookie(out, CookieKind::Listener);
                let cookie = BusListenerCookie(k);
                self.listeners.insert(k, MListener { cookie, owner: c, filters: BTreeSet::new(), scope: None });
                self.send(out, c, CreateBusListenerReply { serial: m.serial, cookie });
            }
            Message::DestroyBusListener(m) => {
                let ok = self.listeners.get(&m.cookie.0).map(|l| l.owner == c).unwrap_or(false);
                if ok {
                    self.listeners.remove(&m.cookie.0);
                    self.send(out, c, DestroyBusListenerReply { serial: m.serial, result: DestroyBusListenerResult::Ok });
                } else {
                    self.send(out, c, DestroyBusListenerReply { serial: m.serial, result: DestroyBusListenerResult::InvalidBusListener });
                }
            }
            Message::AddBusListenerFilter(m) => {
                if let Some(l) = self.listeners.get_mut(&m.cookie.0) {
                    if l.owner == c {
                        l.filters.insert(m.filter);
                    }
                }
            }
            Message::RemoveBusListenerFilter(m) => {
                if let Some(l) = self.listeners.get_mut(&m.cookie.0) {
                    if l.owner == c {
                        l.filters.remove(&m.filter);
                    }
                }
            }
            Message::ClearBusListenerFilters(m) => {
                if let Some(l) = self.listeners.get_mut(&m.cookie.0) {
                    if l.owner == c {
                        l.filters.clear();
                    }
                }
            }
            Message::StartBusListener(m) => self.start_listener(c, m, out),
            Message::StopBusListener(m) => {
                let result = match self.listeners.get_mut(&m.cookie.0) {
                    Some(l) if l.owner == c => {
                        if l.scope.take().is_some() {
                            StopBusListenerResult::Ok
                        } else {
                            StopBusListenerResult::NotStarted
                        }
                    }
                    _ => StopBusListenerResult::InvalidBusListener,
                };
                self.send(out, c, StopBusListenerReply { serial: m.serial, result });
            }
            Message::RegisterIntrospection(m) => match m.value.deserialize::<std::collections::HashSet<TypeId>>() {
                Ok(ids) => {
                    for t in ids {
                        self.intro
                            .entry(t.0)
                            .or_insert_with(|| MIntro { registrants: BTreeSet::new(), cached: None, asked: None, waiting: Vec::new() })
                            .registrants
                            .insert(c);
                        self.conns[c].introspection.insert(t.0);
                    }
                }
                Err(_) => self.close_conn(out, c, "ill-formed introspection registration"),
            },
            Message::QueryIntrospection(m) => self.query_introspection(c, m, out),
            Message::QueryIntrospectionReply(m) => self.query_introspection_reply(c, m, out),
            other => {
                debug_assert!(reply_invalid_direction(&other));
                self.close_conn(out, c, "unexpected message");
            }
        }
    }

    // ---- registry (C03)

    fn create_object(&mut self, c: usize, m: CreateObject, out: &mut StepOut) {
        if self.objs.contains_key(&m.uuid.0) {
            Self::clause(out, "create object: duplicate");
            return self.send(out, c, CreateObjectReply { serial: m.serial, result: CreateObjectResult::DuplicateObject });
        }
        Self::clause(out, "create object: ok with a fresh cookie");
        let k = ObjectCookie(self.fresh_cookie(out, CookieKind::Object));
        self.objs.insert(m.uuid.0, MObj { uuid: m.uuid, cookie: k, owner: c, services: BTreeSet::new() });
        self.send(out, c, CreateObjectReply { serial: m.serial, result: CreateObjectResult::Ok(k) });
        self.bus_event(BusEvent::ObjectCreated(ObjectId::new(m.uuid, k)), out);
    }

    fn destroy_object_req(&mut self, c: usize, m: DestroyObject, out: &mut StepOut) {
        let Some(o) = self.obj_by_cookie(m.cookie) else {
            return self.send(out, c, DestroyObjectReply { serial: m.serial, result: DestroyObjectResult::InvalidObject });
        };
        if o.owner != c {
            return self.send(out, c, DestroyObjectReply { serial: m.serial, result: DestroyObjectResult::ForeignObject });
        }
        let uuid = o.uuid;
        self.send(out, c, DestroyObjectReply { serial: m.serial, result: DestroyObjectResult::Ok });
        self.destroy_object(uuid, out);
    }

    fn destroy_object(&mut self, uuid: ObjectUuid, out: &mut StepOut) {
        let Some(o) = self.objs.get(&uuid.0).cloned() else { return };
        for s in &o.services {
            self.destroy_service(*s, out);
        }
        self.objs.remove(&uuid.0);
        self.bus_event(BusEvent::ObjectDestroyed(ObjectId::new(o.uuid, o.cookie)), out);
    }

    fn create_service(&mut self, c: usize, serial: u32, oc: ObjectCookie, uuid: ServiceUuid, info: Option<ServiceInfo>, out: &mut StepOut) {
        let Some(o) = self.obj_by_cookie(oc).cloned() else {
            return self.send(out, c, CreateServiceReply { serial, result: CreateServiceResult::InvalidObject });
        };
        let dup = self.svcs.values().any(|s| s.obj_uuid == o.uuid && s.uuid == uuid);
        let foreign = o.owner != c;
        if dup || foreign {
            // when both apply the statement does not say which one is reported
            let mut alts = Vec::new();
            if dup {
                alts.push(CreateServiceReply { serial, result: CreateServiceResult::DuplicateService }.into());
            }
            if foreign {
                alts.push(CreateServiceReply { serial, result: CreateServiceResult::ForeignObject }.into());
            }
            return self.send_alts(out, c, alts, false);
        }
        let Some(info) = info else {
            return self.close_conn(out, c, "ill-formed service info");
        };
        let k = ServiceCookie(self.fresh_cookie(out, CookieKind::Service));
        self.svcs.insert(
            k.0,
            MSvc {
                obj_uuid: o.uuid,
                obj_cookie: o.cookie,
                uuid,
                cookie: k,
                owner: c,
                info,
                ev_subs: BTreeMap::new(),
                all_subs: BTreeSet::new(),
                svc_subs: BTreeSet::new(),
            },
        );
        self.objs.get_mut(&o.uuid.0).unwrap().services.insert(k.0);
        self.send(out, c, CreateServiceReply { serial, result: CreateServiceResult::Ok(k) });
        let id = self.svcs[&k.0].id();
        self.bus_event(BusEvent::ServiceCreated(id), out);
    }

    fn destroy_service_req(&mut self, c: usize, m: DestroyService, out: &mut StepOut) {
        let Some(s) = self.svc_by_cookie(m.cookie) else {
            return self.send(out, c, DestroyServiceReply { serial: m.serial, result: DestroyServiceResult::InvalidService });
        };
        if s.owner != c {
            return self.send(out, c, DestroyServiceReply { serial: m.serial, result: DestroyServiceResult::ForeignObject });
        }
        self.send(out, c, DestroyServiceReply { serial: m.serial, result: DestroyServiceResult::Ok });
        self.destroy_service(m.cookie.0, out);
    }

    fn destroy_service(&mut self, cookie: Uuid, out: &mut StepOut) {
        let Some(s) = self.svcs.remove(&cookie) else { return };
        if let Some(o) = self.objs.get_mut(&s.obj_uuid.0) {
            o.services.remove(&cookie);
        }
        // pending calls end with the synthesized outcome
        let ids: Vec<u64> = self.calls.values().filter(|k| k.svc == cookie).map(|k| k.id).collect();
        for id in ids {
            let call = self.calls.remove(&id).unwrap();
            out.released_serials.push((call.callee, call.callee_serial));
            if !call.aborted {
                Self::clause(out, "pending call ended by destruction of the service or its owner: invalid-service synthesized");
                self.conns[call.caller].calls.remove(&call.caller_serial);
                self.send(out, call.caller, CallFunctionReply { serial: call.caller_serial, result: CallFunctionResult::InvalidService });
            }
        }
        // subscribers
        let mut told: BTreeSet<usize> = BTreeSet::new();
        for set in s.ev_subs.values() {
            told.extend(set.iter().copied());
        }
        told.extend(s.svc_subs.iter().copied());
        for &sub in &told {
            if self.in_books(sub) {
                Self::clause(out, "subscriber notified of the destroyed service");
                self.send(out, sub, ServiceDestroyed { service_cookie: s.cookie });
            }
        }
        // connections whose only subscription is "all events": statement read as not requiring
        // a notification (DESIGN C04); either is accepted
        for &sub in s.all_subs.difference(&told) {
            if self.in_books(sub) {
                self.send_alts(out, sub, vec![ServiceDestroyed { service_cookie: s.cookie }.into()], true);
            }
        }
        self.bus_event(BusEvent::ServiceDestroyed(s.id()), out);
    }

    // ---- calls (C02)

    #[allow(clippy::too_many_arguments)]
    fn call(&mut self, c: usize, serial: u32, sc: ServiceCookie, function: u32, version: Option<u32>, value: SerializedValue, out: &mut StepOut) {
        let Some(s) = self.svc_by_cookie(sc).cloned() else {
            Self::clause(out, "call to a service that is not live: invalid-service reply");
            return self.send(out, c, CallFunctionReply { serial, result: CallFunctionResult::InvalidService });
        };
        if self.conns[c].calls.contains_key(&serial) {
            Self::clause(out, "call with a serial still pending: caller closed");
            return self.close_conn(out, c, "call serial already in use");
        }
        Self::clause(out, "call accepted and forwarded to the owner");
        let id = self.next_call;
        self.next_call += 1;
        let callee = s.owner;
        let cs = self.fresh_serial(out, callee);
        self.calls.insert(id, MCall { id, caller: c, caller_serial: serial, callee, svc: sc.0, aborted: false, callee_serial: cs });
        self.conns[c].calls.insert(serial, id);
        if self.conns[callee].version >= 19 {
            self.send(out, callee, CallFunction2 { serial: cs, service_cookie: sc, function, version, value });
        } else {
            self.send(out, callee, CallFunction { serial: cs, service_cookie: sc, function, value });
        }
    }

    fn call_reply(&mut self, c: usize, m: CallFunctionReply, out: &mut StepOut) {
        let Some(call) = self.calls.values().find(|k| k.callee_serial == m.serial).cloned() else {
            Self::clause(out, "reply for no pending call (unknown, duplicate or stale): not delivered");
            return;
        };
        if call.callee != c {
            Self::clause(out, "reply by a connection that does not own the service: not delivered");
            return;
        }
        self.calls.remove(&call.id);
        out.released_serials.push((call.callee, call.callee_serial));
        if call.aborted {
            Self::clause(out, "reply after an abort: not delivered");
            return;
        }
        Self::clause(out, "owner's reply forwarded to the caller");
        self.conns[call.caller].calls.remove(&call.caller_serial);
        self.send(out, call.caller, CallFunctionReply { serial: call.caller_serial, result: m.result });
    }

    fn abort_call(&mut self, id: u64, tell_caller: bool, out: &mut StepOut) {
        let Some(call) = self.calls.get_mut(&id) else { return };
        if call.aborted {
            return;
        }
        call.aborted = true;
        let call = call.clone();
        Self::clause(out, if tell_caller { "call aborted by the caller: aborted reply synthesized" } else { "caller disconnected: call aborted towards the owner" });
        if self.in_books(call.callee) && self.conns[call.callee].version >= 16 {
            self.send(out, call.callee, AbortFunctionCall { serial: call.callee_serial });
        }
        self.conns[call.caller].calls.remove(&call.caller_serial);
        if tell_caller && self.in_books(call.caller) {
            self.send(out, call.caller, CallFunctionReply { serial: call.caller_serial, result: CallFunctionResult::Aborted });
        }
    }

    // ---- events (C04)

    fn subscribe_event(&mut self, c: usize, m: SubscribeEvent, out: &mut StepOut) {
        let Some(serial) = m.serial else {
            return self.close_conn(out, c, "subscription request without serial");
        };
        let Some(s) = self.svcs.get_mut(&m.service_cookie.0) else {
            return self.send(out, c, SubscribeEventReply { serial, result: SubscribeEventResult::InvalidService });
        };
        let set = s.ev_subs.entry(m.event).or_default();
        let first = set.is_empty();
        set.insert(c);
        let owner = s.owner;
        self.send(out, c, SubscribeEventReply { serial, result: SubscribeEventResult::Ok });
        if first {
            Self::clause(out, "event subscribers 0 -> 1: owner told to start");
            self.send(out, owner, SubscribeEvent { serial: None, service_cookie: m.service_cookie, event: m.event });
        }
    }

    fn unsubscribe_event(&mut self, c: usize, sc: ServiceCookie, event: u32, out: &mut StepOut) {
        let Some(s) = self.svcs.get_mut(&sc.0) else { return };
        let Some(set) = s.ev_subs.get_mut(&event) else { return };
        if !set.remove(&c) {
            return;
        }
        if set.is_empty() {
            s.ev_subs.remove(&event);
            let owner = s.owner;
            Self::clause(out, "event subscribers 1 -> 0: owner told to stop");
            self.send(out, owner, UnsubscribeEvent { service_cookie: sc, event });
        }
    }

    fn subscribe_all(&mut self, c: usize, m: SubscribeAllEvents, out: &mut StepOut) {
        let Some(serial) = m.serial else {
            return self.close_conn(out, c, "subscription request without serial");
        };
        let Some(s) = self.svcs.get(&m.service_cookie.0) else {
            return self.send(out, c, SubscribeAllEventsReply { serial, result: SubscribeAllEventsResult::InvalidService });
        };
        if s.info.subscribe_all() != Some(true) || self.conns[s.owner].version < 18 {
            return self.send(out, c, SubscribeAllEventsReply { serial, result: SubscribeAllEventsResult::NotSupported });
        }
        let owner = s.owner;
        let s = self.svcs.get_mut(&m.service_cookie.0).unwrap();
        let first = s.all_subs.is_empty();
        s.all_subs.insert(c);
        self.send(out, c, SubscribeAllEventsReply { serial, result: SubscribeAllEventsResult::Ok });
        if first {
            self.send(out, owner, SubscribeAllEvents { serial: None, service_cookie: m.service_cookie });
        }
    }

    fn unsubscribe_all(&mut self, c: usize, m: UnsubscribeAllEvents, out: &mut StepOut) {
        let Some(s) = self.svcs.get(&m.service_cookie.0) else {
            if let Some(serial) = m.serial {
                self.send(out, c, UnsubscribeAllEventsReply { serial, result: UnsubscribeAllEventsResult::InvalidService });
            }
            return;
        };
        let owner = s.owner;
        if self.conns[owner].version < 18 {
            if let Some(serial) = m.serial {
                self.send(out, c, UnsubscribeAllEventsReply { serial, result: UnsubscribeAllEventsResult::NotSupported });
            }
            return;
        }
        if let Some(serial) = m.serial {
            self.send(out, c, UnsubscribeAllEventsReply { serial, result: UnsubscribeAllEventsResult::Ok });
        }
        let s = self.svcs.get_mut(&m.service_cookie.0).unwrap();
        if s.all_subs.remove(&c) && s.all_subs.is_empty() {
            self.send(out, owner, UnsubscribeAllEvents { serial: None, service_cookie: m.service_cookie });
        }
    }

    fn emit_event(&mut self, c: usize, m: EmitEvent, out: &mut StepOut) {
        let Some(s) = self.svcs.get(&m.service_cookie.0) else { return };
        if s.owner != c {
            Self::clause(out, "event emitted by a non-owner: dropped");
            return;
        }
        Self::clause(out, "event emitted by the owner");
        let mut to: BTreeSet<usize> = s.all_subs.clone();
        if let Some(set) = s.ev_subs.get(&m.event) {
            to.extend(set.iter().copied());
        }
        for t in to {
            Self::clause(out, "event delivered to a subscribed connection");
            self.send(out, t, m.clone());
        }
    }

    // ---- channels (C05)

    fn create_channel(&mut self, c: usize, m: CreateChannel, out: &mut StepOut) {
        let k = ChannelCookie(self.fresh_cookie(out, CookieKind::Channel));
        let ch = match m.end {
            ChannelEndWithCapacity::Sender => MChan {
                cookie: k,
                sender: EndSt::Claimed { owner: c, credit: 0 },
                receiver: EndSt::Unclaimed,
                forwarded: 0,
                granted: 0,
                announced: 0,
                rcap_at_close: 0,
            },
            ChannelEndWithCapacity::Receiver(cap) => MChan {
                cookie: k,
                sender: EndSt::Unclaimed,
                receiver: EndSt::Claimed { owner: c, credit: cap as u64 },
                forwarded: 0,
                granted: cap as u64,
                announced: 0,
                rcap_at_close: 0,
            },
        };
        self.chans.insert(k.0, ch);
        self.send(out, c, CreateChannelReply { serial: m.serial, cookie: k });
    }

    fn claim_channel_end(&mut self, c: usize, m: ClaimChannelEnd, out: &mut StepOut) {
        let Some(ch) = self.chans.get_mut(&m.cookie.0) else {
            return self.send(out, c, ClaimChannelEndReply { serial: m.serial, result: ClaimChannelEndResult::InvalidChannel });
        };
        let (end, other) = match m.end {
            ChannelEndWithCapacity::Sender => (&mut ch.sender, &mut ch.receiver),
            ChannelEndWithCapacity::Receiver(_) => (&mut ch.receiver, &mut ch.sender),
        };
        match end {
            EndSt::Claimed { .. } => {
                Self::clause(out, "claim of an already claimed end refused");
                return self.send(out, c, ClaimChannelEndReply { serial: m.serial, result: ClaimChannelEndResult::AlreadyClaimed });
            }
            EndSt::Closed => {
                return self.send(out, c, ClaimChannelEndReply { serial: m.serial, result: ClaimChannelEndResult::InvalidChannel })
            }
            EndSt::Unclaimed => {}
        }
        let EndSt::Claimed { owner: peer, credit: peer_credit } = other.clone() else {
            // an unclaimed end only exists next to a claimed one
            return self.send(out, c, ClaimChannelEndReply { serial: m.serial, result: ClaimChannelEndResult::InvalidChannel });
        };
        match m.end {
            ChannelEndWithCapacity::Sender => {
                *end = EndSt::Claimed { owner: c, credit: peer_credit };
                ch.announced = peer_credit;
                self.send(out, c, ClaimChannelEndReply { serial: m.serial, result: ClaimChannelEndResult::SenderClaimed(peer_credit as u32) });
                self.send(out, peer, ChannelEndClaimed { cookie: m.cookie, end: m.end });
            }
            ChannelEndWithCapacity::Receiver(cap) => {
                *end = EndSt::Claimed { owner: c, credit: cap as u64 };
                *other = EndSt::Claimed { owner: peer, credit: cap as u64 };
                ch.granted = cap as u64;
                ch.announced = cap as u64;
                self.send(out, c, ClaimChannelEndReply { serial: m.serial, result: ClaimChannelEndResult::ReceiverClaimed });
                self.send(out, peer, ChannelEndClaimed { cookie: m.cookie, end: m.end });
            }
        }
    }

    fn close_channel_end_req(&mut self, c: usize, m: CloseChannelEnd, out: &mut StepOut) {
        let Some(ch) = self.chans.get(&m.cookie.0) else {
            return self.send(out, c, CloseChannelEndReply { serial: m.serial, result: CloseChannelEndResult::InvalidChannel });
        };
        let end = match m.end {
            ChannelEnd::Sender => &ch.sender,
            ChannelEnd::Receiver => &ch.receiver,
        };
        let result = match end {
            EndSt::Unclaimed => CloseChannelEndResult::Ok,
            EndSt::Claimed { owner, .. } if *owner == c => CloseChannelEndResult::Ok,
            EndSt::Claimed { .. } => CloseChannelEndResult::ForeignChannel,
            EndSt::Closed => CloseChannelEndResult::InvalidChannel,
        };
        self.send(out, c, CloseChannelEndReply { serial: m.serial, result });
        if result == CloseChannelEndResult::Ok {
            self.close_end(m.cookie.0, m.end, out);
        }
    }

    /// Closes one end; the peer (if it holds the other end and is known to the broker) is told
    /// once, otherwise the channel disappears.
    fn close_end(&mut self, cookie: Uuid, end: ChannelEnd, out: &mut StepOut) {
        let Some(ch) = self.chans.get_mut(&cookie) else { return };
        let (e, other) = match end {
            ChannelEnd::Sender => (&mut ch.sender, &ch.receiver),
            ChannelEnd::Receiver => (&mut ch.receiver, &ch.sender),
        };
        if *e == EndSt::Closed {
            return;
        }
        if let (ChannelEnd::Receiver, EndSt::Claimed { credit, .. }) = (end, &*e) {
            ch.rcap_at_close = *credit;
        }
        *e = EndSt::Closed;
        let ck = ch.cookie;
        match other.clone() {
            EndSt::Claimed { owner, .. } if self.in_books(owner) => {
                Self::clause(out, "peer told once that the other end is closed");
                self.send(out, owner, ChannelEndClosed { cookie: ck, end });
            }
            _ => {
                self.chans.remove(&cookie);
            }
        }
    }

    fn send_item(&mut self, c: usize, m: SendItem, out: &mut StepOut) {
        let Some(ch) = self.chans.get_mut(&m.cookie.0) else { return };
        let EndSt::Claimed { owner, credit } = ch.sender.clone() else { return };
        if owner != c {
            return;
        }
        match ch.receiver.clone() {
            EndSt::Closed => {}
            EndSt::Unclaimed => {
                // nothing was announced to this sender: it loses its end, and with nobody on
                // the other side the channel is gone; the sender is told the receiver is closed
                self.close_end(m.cookie.0, ChannelEnd::Receiver, out);
                self.close_end(m.cookie.0, ChannelEnd::Sender, out);
            }
            EndSt::Claimed { owner: r, credit: rcap } => {
                if credit == 0 {
                    Self::clause(out, "sender exceeded its announced credit: only its own end closed");
                    out.notes.push("sender exceeded the capacity announced to it".into());
                    self.close_end(m.cookie.0, ChannelEnd::Sender, out);
                } else {
                    ch.sender = EndSt::Claimed { owner, credit: credit - 1 };
                    ch.receiver = EndSt::Claimed { owner: r, credit: rcap - 1 };
                    ch.forwarded += 1;
                    Self::clause(out, "item forwarded within the granted capacity");
                    self.send(out, r, ItemReceived { cookie: m.cookie, value: m.value });
                    if self.conns[owner].state == ConnState::Zombie {
                        // a credit announcement to the sender may follow
                        self.touched_zombies.insert(owner);
                    }

                    self.unobserved_announcement(m.cookie.0);
                }
            }
        }
    }

    fn add_capacity(&mut self, c: usize, m: AddChannelCapacity, out: &mut StepOut) {
        if m.capacity == 0 {
            return;
        }
        let Some(ch) = self.chans.get_mut(&m.cookie.0) else { return };
        let EndSt::Claimed { owner, credit } = ch.receiver.clone() else { return };
        if owner != c {
            return;
        }
        let new = credit + m.capacity as u64;
        if new > u32::MAX as u64 {
            Self::clause(out, "capacity grant overflows: only the receiver closed");
            out.notes.push("capacity grant overflows: receiver closed".into());
            return self.close_end(m.cookie.0, ChannelEnd::Receiver, out);
        }
        ch.receiver = EndSt::Claimed { owner, credit: new };
        ch.granted += m.capacity as u64;
        // a credit announcement to the sender may follow (its timing is the broker's policy)
        if let EndSt::Claimed { owner: s, .. } = ch.sender {
            if self.conns[s].state == ConnState::Zombie {
                self.touched_zombies.insert(s);
            }

        }
        self.unobserved_announcement(m.cookie.0);
    }

    /// A credit announcement to a sender whose deliveries cannot be observed in this burst may
    /// or may not have been made.
    fn unobserved_announcement(&mut self, cookie: Uuid) {
        let Some(ch) = self.chans.get(&cookie) else { return };
        let (EndSt::Claimed { owner, credit }, EndSt::Claimed { credit: rcap, .. }) = (ch.sender.clone(), ch.receiver.clone()) else { return };
        let mute = self.conns[owner].state == ConnState::Mute;
        if (mute || (self.unobservable.contains(&owner) && self.conns[owner].state == ConnState::Alive)) && rcap > credit && self.choose(2) == 1 {
            let ch = self.chans.get_mut(&cookie).unwrap();
            ch.sender = EndSt::Claimed { owner, credit: rcap };
            ch.announced += rcap - credit;
            if mute {
                // the announcement was handed to a connection task that cannot write it
                self.mute_must.insert(owner);
            }
        }
    }

    /// Credit announcements to the sender are accepted whenever they stay within what the
    /// receiver granted; their timing is the broker's policy (DESIGN C05).
    pub fn flex_accept(&mut self, conn: usize, msg: &Message) -> bool {
        let Message::AddChannelCapacity(m) = msg else { return false };
        let Some(ch) = self.chans.get_mut(&m.cookie.0) else { return false };
        let EndSt::Claimed { owner, credit } = ch.sender.clone() else { return false };
        let rcap = match ch.receiver {
            EndSt::Claimed { credit: rcap, .. } => rcap,
            // an announcement made just before the receiver went away
            EndSt::Closed => ch.rcap_at_close,
            EndSt::Unclaimed => return false,
        };
        if owner != conn || m.capacity == 0 {
            return false;
        }
        if credit + m.capacity as u64 > rcap {
            return false;
        }
        ch.sender = EndSt::Claimed { owner, credit: credit + m.capacity as u64 };
        ch.announced += m.capacity as u64;
        true
    }

    /// Bounded progress for flow control: a sender with no announced credit left while the
    /// receiver has granted more is starved.
    pub fn starved_channels(&self) -> Vec<Uuid> {
        self.chans
            .values()
            .filter(|ch| match (&ch.sender, &ch.receiver) {
                (EndSt::Claimed { owner, credit: 0 }, EndSt::Claimed { credit: rcap, .. }) => *rcap > 0 && self.conns[*owner].state == ConnState::Alive,
                _ => false,
            })
            .map(|ch| ch.cookie.0)
            .collect()
    }

    // ---- bus listeners (C10)

    fn start_listener(&mut self, c: usize, m: StartBusListener, out: &mut StepOut) {
        let result = match self.listeners.get_mut(&m.cookie.0) {
            Some(l) if l.owner == c => {
                if l.scope.is_some() {
                    StartBusListenerResult::AlreadyStarted
                } else {
                    l.scope = Some(m.scope);
                    StartBusListenerResult::Ok
                }
            }
            _ => StartBusListenerResult::InvalidBusListener,
        };
        self.send(out, c, StartBusListenerReply { serial: m.serial, result });
        if result != StartBusListenerResult::Ok || !m.scope.includes_current() {
            return;
        }
        let l = self.listeners[&m.cookie.0].clone();
        let objs: Vec<ObjectId> = self.objs.values().map(|o| ObjectId::new(o.uuid, o.cookie)).collect();
        for o in objs {
            if l.filters.iter().any(|f| f.matches_object(o)) {
                self.send(out, c, EmitBusEvent { cookie: Some(m.cookie), event: BusEvent::ObjectCreated(o) });
            }
        }
        let svcs: Vec<ServiceId> = self.svcs.values().map(|s| s.id()).collect();
        for s in svcs {
            if l.filters.iter().any(|f| f.matches_service(s)) {
                self.send(out, c, EmitBusEvent { cookie: Some(m.cookie), event: BusEvent::ServiceCreated(s) });
            }
        }
        Self::clause(out, "listener started with current scope: tagged events then end marker");
        self.send(out, c, BusListenerCurrentFinished { cookie: m.cookie });
    }

    fn bus_event(&mut self, ev: BusEvent, out: &mut StepOut) {
        let mut conns: BTreeSet<usize> = BTreeSet::new();
        for l in self.listeners.values() {
            if l.scope.map(|s| s.includes_new()).unwrap_or(false) && l.filters.iter().any(|f| f.matches_event(ev)) {
                conns.insert(l.owner);
            }
        }
        for c in conns {
            Self::clause(out, "new bus event reported once to a connection with a matching started listener");
            self.send(out, c, EmitBusEvent { cookie: None, event: ev });
        }
    }

    // ---- introspection

    fn query_introspection(&mut self, c: usize, m: QueryIntrospection, out: &mut StepOut) {
        let Some(e) = self.intro.get(&m.type_id.0).cloned() else {
            return self.send(out, c, QueryIntrospectionReply { serial: m.serial, result: QueryIntrospectionResult::Unavailable });
        };
        if let Some(v) = e.cached {
            return self.send(out, c, QueryIntrospectionReply { serial: m.serial, result: QueryIntrospectionResult::Ok(v) });
        }
        self.intro.get_mut(&m.type_id.0).unwrap().waiting.push((c, m.serial));
        if e.asked.is_none() {
            self.ask_registrant(m.type_id, out);
        }
    }

    fn ask_registrant(&mut self, t: TypeId, out: &mut StepOut) {
        let regs: Vec<usize> = self.intro[&t.0].registrants.iter().copied().collect();
        if regs.is_empty() {
            return;
        }
        let pick = regs[self.choose(regs.len())];
        let s = self.fresh_serial(out, pick);
        self.intro.get_mut(&t.0).unwrap().asked = Some((pick, s));
        self.send(out, pick, QueryIntrospection { serial: s, type_id: t });
    }

    fn query_introspection_reply(&mut self, c: usize, m: QueryIntrospectionReply, out: &mut StepOut) {
        let Some((&t, _)) = self.intro.iter().find(|(_, e)| e.asked.map(|(_, s)| s == m.serial).unwrap_or(false)) else {
            return self.close_conn(out, c, "introspection reply nobody asked for");
        };
        let e = self.intro.get_mut(&t).unwrap();
        if e.asked.map(|(who, _)| who != c).unwrap_or(true) {
            return self.close_conn(out, c, "introspection reply from a connection that was not asked");
        }
        let (who, s) = e.asked.take().unwrap();
        out.released_serials.push((who, s));
        match m.result {
            QueryIntrospectionResult::Ok(v) => {
                e.cached = Some(v.clone());
                let waiting = std::mem::take(&mut e.waiting);
                for (w, ws) in waiting {
                    self.send(out, w, QueryIntrospectionReply { serial: ws, result: QueryIntrospectionResult::Ok(v.clone()) });
                }
            }
            QueryIntrospectionResult::Unavailable => {
                // queries made by the very connection that now says "unavailable" may be
                // dropped without an answer (no statement covers them)
                let own: Vec<(usize, u32)> = e.waiting.iter().copied().filter(|(w, _)| *w == c).collect();
                e.waiting.retain(|(w, _)| *w != c);
                for (w, ws) in own {
                    out.exp.push(Exp {
                        conn: w,
                        alts: vec![QueryIntrospectionReply { serial: ws, result: QueryIntrospectionResult::Unavailable }.into()],
                        optional: true,
                    });
                }
                let e = self.intro.get_mut(&t).unwrap();
                e.registrants.remove(&c);
                self.conns[c].introspection.remove(&t);
                if e.registrants.is_empty() {
                    let waiting = std::mem::take(&mut e.waiting);
                    self.intro.remove(&t);
                    for (w, ws) in waiting {
                        self.send(out, w, QueryIntrospectionReply { serial: ws, result: QueryIntrospectionResult::Unavailable });
                    }
                } else {
                    self.ask_registrant(TypeId(t), out);
                }
            }
        }
    }

    // ---- disconnect (C09)

    pub fn disconnect(&mut self, d: usize, out: &mut StepOut) {
        if !self.in_books(d) {
            return;
        }
        self.conns[d].state = ConnState::Gone;
        out.closed.push(d);
        Self::clause(out, "connection ended: everything it owned or subscribed to released");
        // listeners
        let ls: Vec<Uuid> = self.listeners.values().filter(|l| l.owner == d).map(|l| l.cookie.0).collect();
        for l in ls {
            self.listeners.remove(&l);
        }
        // objects (and with them services, their pending calls and subscriptions)
        let os: Vec<ObjectUuid> = self.objs.values().filter(|o| o.owner == d).map(|o| o.uuid).collect();
        for o in os {
            self.destroy_object(o, out);
        }
        // subscriptions held by d
        let svc_ids: Vec<Uuid> = self.svcs.keys().copied().collect();
        for sid in svc_ids {
            let s = self.svcs.get_mut(&sid).unwrap();
            let owner = s.owner;
            let sc = s.cookie;
            let mut emptied: Vec<u32> = Vec::new();
            for (ev, set) in s.ev_subs.iter_mut() {
                if set.remove(&d) && set.is_empty() {
                    emptied.push(*ev);
                }
            }
            for ev in &emptied {
                s.ev_subs.remove(ev);
            }
            let all_emptied = s.all_subs.remove(&d) && s.all_subs.is_empty();
            s.svc_subs.remove(&d);
            for ev in emptied {
                Self::clause(out, "subscriber disconnected, event subscribers 1 -> 0: owner told to stop");
                self.send(out, owner, UnsubscribeEvent { service_cookie: sc, event: ev });
            }
            if all_emptied {
                // unlike the handler of an explicit UnsubscribeAllEvents, the teardown path acts
                // on a failed delivery
                if self.conns[owner].state == ConnState::Zombie {
                    self.must_notice.insert(owner);
                }
                self.send(out, owner, UnsubscribeAllEvents { serial: None, service_cookie: sc });
            }
        }
        // channel ends
        let cs: Vec<Uuid> = self.chans.keys().copied().collect();
        for ck in cs {
            let Some(ch) = self.chans.get(&ck) else { continue };
            let s_mine = matches!(ch.sender, EndSt::Claimed { owner, .. } if owner == d);
            let r_mine = matches!(ch.receiver, EndSt::Claimed { owner, .. } if owner == d);
            if s_mine {
                self.close_end(ck, ChannelEnd::Sender, out);
            }
            if r_mine {
                self.close_end(ck, ChannelEnd::Receiver, out);
            }
        }
        // calls made by d are aborted towards the callee
        let mine: Vec<u64> = self.conns[d].calls.values().copied().collect();
        for id in mine {
            self.abort_call(id, false, out);
        }
        self.conns[d].calls.clear();
        // introspection
        let ts: Vec<Uuid> = self.intro.keys().copied().collect();
        for t in ts {
            let e = self.intro.get_mut(&t).unwrap();
            e.waiting.retain(|(w, _)| *w != d);
            let was_asked = e.asked.map(|(who, _)| who == d).unwrap_or(false);
            if was_asked {
                let (who, s) = e.asked.take().unwrap();
                out.released_serials.push((who, s));
            }
            let was_reg = e.registrants.remove(&d);
            if !was_reg {
                continue;
            }
            if e.registrants.is_empty() {
                let waiting = std::mem::take(&mut e.waiting);
                self.intro.remove(&t);
                for (w, ws) in waiting {
                    self.send(out, w, QueryIntrospectionReply { serial: ws, result: QueryIntrospectionResult::Unavailable });
                }
            } else if was_asked {
                self.ask_registrant(TypeId(t), out);
            }
        }
        self.conns[d].introspection.clear();
    }
}

#[derive(Debug, Clone, Copy, PartialEq, Eq, Default)]
pub struct Counts {
    pub conns: usize,
    pub objects: usize,
    pub services: usize,
    pub channels: usize,
    pub listeners: usize,
    pub calls: usize,
}
