//! Bus engines: deterministic executor, harness transport, executable bus model, protocol-level
//! rig (RawConn + BusModel) and the real-client rig.
pub mod dx;
pub mod model;
pub mod msgmap;
pub mod pipe;
pub mod rig;
pub mod gen;
pub mod hist;
pub mod profiles;
pub mod clientrig;
