//! ClientRig: real `aldrin::Client`s, the real broker and real `Connection` tasks on `dx` in
//! random mode, connected through the harness transport (bounded or unbounded FIFOs, optional
//! fault at the k-th transport operation, optional downgrade of the requested protocol version).

use super::dx::{Dx, RunEnd, Signal, Slot, Spawner, TaskId, YieldNow};
use super::pipe::{duplex, End, FaultKind, PipeError, Shared};
use crate::prng::Rng;
use aldrin::low_level::{Proxy, Service, ServiceInfo};
use aldrin::{Client, Handle};
use aldrin_broker::{Broker, BrokerHandle};
use aldrin_core::message::Message;
use aldrin_core::transport::AsyncTransport;
use aldrin_core::{ObjectUuid, ServiceId, ServiceUuid};
use std::cell::RefCell;
use std::collections::BTreeMap;
use std::pin::Pin;
use std::rc::Rc;
use std::task::{Context, Poll};

/// Rewrites the minor version of the client's `Connect2`, so that the *real* client negotiates
/// and then runs at any version 1.14..1.20.
pub struct Downgrade {
    pub inner: End,
    pub minor: Option<u32>,
}

impl AsyncTransport for Downgrade {
    type Error = PipeError;
    fn receive_poll(mut self: Pin<&mut Self>, cx: &mut Context) -> Poll<Result<Message, PipeError>> {
        Pin::new(&mut self.inner).receive_poll(cx)
    }
    fn send_poll_ready(mut self: Pin<&mut Self>, cx: &mut Context) -> Poll<Result<(), PipeError>> {
        Pin::new(&mut self.inner).send_poll_ready(cx)
    }
    fn send_start(mut self: Pin<&mut Self>, mut msg: Message) -> Result<(), PipeError> {
        if let (Some(m), Message::Connect2(c)) = (self.minor, &mut msg) {
            c.minor_version = m;
        }
        Pin::new(&mut self.inner).send_start(msg)
    }
    fn send_poll_flush(mut self: Pin<&mut Self>, cx: &mut Context) -> Poll<Result<(), PipeError>> {
        Pin::new(&mut self.inner).send_poll_flush(cx)
    }
}

pub struct ShInner {
    pub log: RefCell<Vec<String>>,
    pub fails: RefCell<Vec<(String, String)>>,
    pub ops: RefCell<BTreeMap<String, u64>>,
    pub spawner: Spawner,
    /// tasks started through `spawn_app`: (name, done flag, helper?, client whose handle it uses)
    pub tasks: RefCell<Vec<(String, Signal<bool>, bool, usize)>>,
    /// errors reported by application steps are expected (fault-injection runs)
    pub tolerant: std::cell::Cell<bool>,
}

/// State shared by the application tasks of one world.
#[derive(Clone)]
pub struct Sh(pub Rc<ShInner>);

impl Sh {
    pub fn op(&self, name: &str) {
        *self.0.ops.borrow_mut().entry(name.to_string()).or_insert(0) += 1;
    }
    pub fn log(&self, s: String) {
        let mut l = self.0.log.borrow_mut();
        if l.len() < 3000 {
            l.push(s);
        }
    }
    pub fn fail(&self, sig: &str, detail: String) {
        if self.0.tolerant.get() {
            self.op("tolerated-step-failure");
            return;
        }
        self.log(format!("FAIL {}: {}", sig, detail));
        self.0.fails.borrow_mut().push((sig.to_string(), detail));
    }
    /// A failure that no injected fault can explain.
    pub fn hard_fail(&self, sig: &str, detail: String) {
        self.log(format!("FAIL {}: {}", sig, detail));
        self.0.fails.borrow_mut().push((sig.to_string(), detail));
    }
    /// Starts an application task; `helper` tasks may legitimately still wait when the
    /// applications are done (service loops, consumers).
    pub fn spawn_app(&self, name: &str, helper: bool, client: usize, fut: impl std::future::Future<Output = ()> + 'static) -> Signal<bool> {
        let done: Signal<bool> = Signal::new();
        let d2 = done.clone();
        self.0.tasks.borrow_mut().push((name.to_string(), done.clone(), helper, client));
        self.0.spawner.spawn(name, async move {
            fut.await;
            d2.set(true);
        });
        done
    }
}

pub struct ClientSlot {
    pub handle: Option<Handle>,
    pub run_task: TaskId,
    pub run_result: Slot<String>,
    pub conn_task: TaskId,
    pub conn_result: Slot<String>,
    pub version: u32,
    pub pipe: Rc<RefCell<Shared>>,
    pub conn_handle: aldrin_broker::ConnectionHandle,
}

pub struct World {
    pub dx: Dx,
    pub broker_task: TaskId,
    pub broker_done: Slot<()>,
    pub bh: BrokerHandle,
    pub clients: Vec<ClientSlot>,
    pub sh: Sh,
    pub budget_hit: bool,
}

pub const CLIENT_SIDE: usize = 0;
pub const BROKER_SIDE: usize = 1;

impl World {
    pub fn new() -> Self {
        let broker = Broker::new();
        let bh = broker.handle().clone();
        let mut dx = Dx::new();
        let (broker_task, broker_done) = dx.spawn_out("broker", broker.run());
        let sh = Sh(Rc::new(ShInner {
            log: RefCell::new(Vec::new()),
            fails: RefCell::new(Vec::new()),
            ops: RefCell::new(BTreeMap::new()),
            spawner: dx.spawner(),
            tasks: RefCell::new(Vec::new()),
            tolerant: std::cell::Cell::new(false),
        }));
        World { dx, broker_task, broker_done, bh, clients: Vec::new(), sh, budget_hit: false }
    }

    /// Connects a real client. `caps` = FIFO bound towards (client, broker); `minor` downgrades
    /// the requested version. Uses the random scheduler for the handshake too.
    pub fn add_client(&mut self, caps: (Option<usize>, Option<usize>), minor: Option<u32>, rng: &mut Rng) -> Result<usize, String> {
        let (c_end, b_end) = duplex([caps.0, caps.1]);
        let pipe = c_end.handle();
        let idx = self.clients.len();
        let (ct, cslot) = self.dx.spawn_out(&format!("connect-client{}", idx), async move {
            Client::connect(Downgrade { inner: c_end, minor }).await.map_err(|e| format!("{:?}", e))
        });
        let mut bh = self.bh.clone();
        let (bt, bslot) = self.dx.spawn_out(&format!("connect-broker{}", idx), async move { bh.connect(b_end).await.map_err(|e| format!("{:?}", e)) });
        if self.dx.run_random(rng, 20_000) == RunEnd::Budget {
            self.budget_hit = true;
        }
        let _ = (ct, bt);
        let client = cslot.borrow_mut().take().ok_or("client handshake did not complete")??;
        let conn = bslot.borrow_mut().take().ok_or("broker handshake did not complete")??;
        let handle = client.handle().clone();
        let conn_handle = conn.handle().clone();
        let version = {
            // Client::version consumes the client; ask the downgrade instead
            minor.unwrap_or(20).min(20)
        };
        let (run_task, run_result) = self.dx.spawn_out(&format!("client{}", idx), async move {
            match client.run().await {
                Ok(()) => "Ok".to_string(),
                Err(e) => format!("Err({:?})", e),
            }
        });
        let (conn_task, conn_result) = self.dx.spawn_out(&format!("conn{}", idx), async move {
            match conn.run().await {
                Ok(()) => "Ok".to_string(),
                Err(e) => format!("Err({:?})", e),
            }
        });
        self.clients.push(ClientSlot { handle: Some(handle), run_task, run_result, conn_task, conn_result, version, pipe, conn_handle });
        Ok(idx)
    }

    pub fn handle(&self, c: usize) -> Handle {
        self.clients[c].handle.clone().expect("handle")
    }

    pub fn run(&mut self, rng: &mut Rng, budget: u64) -> RunEnd {
        let r = self.dx.run_random(rng, budget);
        if r == RunEnd::Budget {
            self.budget_hit = true;
        }
        r
    }

    /// Names of application tasks (non-helper unless `all`) that have not finished.
    pub fn unfinished(&self, all: bool) -> Vec<String> {
        self.sh.0.tasks.borrow().iter().filter(|(_, d, helper, _)| d.get().is_none() && (all || !*helper)).map(|(n, _, _, _)| n.clone()).collect()
    }

    /// Unfinished tasks (helpers included) that work on the handles of client `c`.
    pub fn unfinished_of(&self, c: usize) -> Vec<String> {
        self.sh.0.tasks.borrow().iter().filter(|(_, d, _, cl)| d.get().is_none() && *cl == c).map(|(n, _, _, _)| n.clone()).collect()
    }

    /// Random scheduling with a callback before every poll (to trigger events at exact points).
    pub fn run_with(&mut self, rng: &mut Rng, budget: u64, f: &mut dyn FnMut(&mut World)) -> RunEnd {
        let start = self.dx.polls;
        loop {
            f(self);
            if !self.dx.step_random(rng) {
                return RunEnd::Quiescent;
            }
            if self.dx.polls - start > budget {
                self.budget_hit = true;
                return RunEnd::Budget;
            }
        }
    }

    pub fn set_fault(&self, c: usize, side: usize, at: u64, kind: FaultKind) {
        self.clients[c].pipe.borrow_mut().ends[side].fault = Some((at, kind));
    }

    pub fn ops_done(&self, c: usize, side: usize) -> u64 {
        self.clients[c].pipe.borrow().ends[side].ops
    }
}

impl Default for World {
    fn default() -> Self {
        Self::new()
    }
}

// ---------------------------------------------------------------------------------------------
// Helper tasks
// ---------------------------------------------------------------------------------------------

pub const FN_ECHO: u32 = 0;
pub const FN_ERR: u32 = 1;
pub const FN_INVALID_FUNCTION: u32 = 2;
pub const FN_INVALID_ARGS: u32 = 3;
pub const FN_ABORT: u32 = 4;
pub const FN_EMIT: u32 = 5;
pub const FN_DELAYED: u32 = 6;
pub const FN_STOP: u32 = 7;
/// the callee keeps the promise and waits to be told that the caller has aborted the call
pub const FN_WAIT_ABORT: u32 = 8;

#[derive(Clone, Debug)]
pub struct ServerCfg {
    pub client: usize,
    pub obj: ObjectUuid,
    pub svc: ServiceUuid,
    pub version: u32,
}

/// Unconditional service loop: answers every call (see FN_*), until told to stop or until the
/// service ends.
pub async fn server(sh: Sh, h: Handle, cfg: ServerCfg, ready: Signal<Option<ServiceId>>) {
    sh.op("create_object");
    let obj = match h.create_object(cfg.obj).await {
        Ok(o) => o,
        Err(e) => {
            ready.set(None);
            if e != aldrin::Error::Shutdown {
                sh.fail("server-create-object", format!("{:?}", e));
            }
            return;
        }
    };
    sh.op("create_service");
    let mut svc: Service = match obj.create_service(cfg.svc, ServiceInfo::new(cfg.version)).await {
        Ok(s) => s,
        Err(e) => {
            ready.set(None);
            if e != aldrin::Error::Shutdown {
                sh.fail("server-create-service", format!("{:?}", e));
            }
            return;
        }
    };
    ready.set(Some(svc.id()));
    // promises of FN_WAIT_ABORT calls: watched for the caller's abort while serving other calls
    let mut waiting: Vec<aldrin::low_level::Promise> = Vec::new();
    loop {
        sh.op("next_call");
        let next = std::future::poll_fn(|cx| {
            let mut i = 0;
            while i < waiting.len() {
                if waiting[i].poll_aborted(cx).is_ready() {
                    sh.op("promise.aborted");
                    drop(waiting.swap_remove(i));
                } else {
                    i += 1;
                }
            }
            svc.poll_next_call(cx)
        })
        .await;
        let Some(call) = next else { break };
        let f = call.id();
        match f {
            FN_ECHO | FN_DELAYED => match call.deserialize::<u64>() {
                Ok(n) => {
                    if f == FN_DELAYED {
                        for _ in 0..(n % 5) {
                            YieldNow(false).await;
                        }
                    }
                    sh.op("promise.ok");
                    let _ = call.ok(n);
                }
                Err(_) => {
                    let _ = call.invalid_args();
                }
            },
            FN_ERR => match call.deserialize::<u64>() {
                Ok(n) => {
                    sh.op("promise.err");
                    let _ = call.err(n);
                }
                Err(_) => {
                    let _ = call.invalid_args();
                }
            },
            FN_INVALID_FUNCTION => {
                let _ = call.invalid_function();
            }
            FN_INVALID_ARGS => {
                let _ = call.invalid_args();
            }
            FN_ABORT => {
                sh.op("promise.abort");
                let _ = call.abort();
            }
            FN_EMIT => match call.deserialize::<(u32, u32, u64)>() {
                Ok((event, count, tag)) => {
                    for i in 0..count {
                        sh.op("emit");
                        if let Err(e) = svc.emit(event, (tag, i)) {
                            if e != aldrin::Error::Shutdown {
                                sh.fail("emit", format!("{:?}", e));
                            }
                        }
                    }
                    let _ = call.ok(tag);
                }
                Err(_) => {
                    let _ = call.invalid_args();
                }
            },
            FN_WAIT_ABORT => {
                sh.op("promise.keep");
                waiting.push(call.into_promise());
            }
            FN_STOP => {
                let _ = call.done();
                break;
            }
            _ => {
                let _ = call.invalid_function();
            }
        }
    }
    // promises still kept: if this client has stopped, waiting for the abort must resolve (C15:
    // every pending operation completes); otherwise they are dropped, which answers "aborted"
    if !waiting.is_empty() && matches!(h.sync_client().await, Err(aldrin::Error::Shutdown)) {
        for mut p in waiting.drain(..) {
            sh.op("promise.aborted:after-termination");
            p.aborted().await;
        }
    }
    drop(waiting);
    if cfg.version % 2 == 0 {
        sh.op("service.destroy");
        let _ = svc.destroy().await;
        sh.op("object.destroy");
        let _ = obj.destroy().await;
    }
}

pub fn is_shutdown(e: &aldrin::Error) -> bool {
    *e == aldrin::Error::Shutdown
}

/// Creates a proxy for `id`, counting the operation.
pub async fn proxy(sh: &Sh, h: &Handle, id: ServiceId) -> Result<Proxy, aldrin::Error> {
    sh.op("create_proxy");
    h.create_proxy(id).await
}
