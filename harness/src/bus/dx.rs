//! dx: deterministic single-threaded executor (DESIGN.md 2.1).
//!
//! Tasks are boxed futures; a waker only sets the task's ready bit. Two ways to drive it:
//! scripted (`run_task`, `run_order`) to build exact queue contents, and random
//! (`run_random`: the next task is drawn from the ready set by the seeded PRNG). Every poll is
//! under `catch_unwind`; a panic kills the task and is recorded with its site. The sequence of
//! polled task ids is hashed (`trace`) — the unit for "distinct interleavings seen".

use crate::guard;
use crate::prng::Rng;
use std::cell::RefCell;
use std::future::Future;
use std::pin::Pin;
use std::rc::Rc;
use std::sync::atomic::{AtomicBool, Ordering};
use std::sync::Arc;
use std::task::{Context, Poll, Wake, Waker};

pub type TaskId = usize;

/// Watchdog support: a poll that never returns (busy loop inside a future) cannot be
/// interrupted from the executor; a monitor thread of the process watches these.
pub static HEARTBEAT: std::sync::atomic::AtomicU64 = std::sync::atomic::AtomicU64::new(0);
pub static IN_POLL: AtomicBool = AtomicBool::new(false);
pub static CURRENT_TASK: std::sync::Mutex<String> = std::sync::Mutex::new(String::new());

struct Flag(AtomicBool);

impl Wake for Flag {
    fn wake(self: Arc<Self>) {
        self.0.store(true, Ordering::SeqCst);
    }
    fn wake_by_ref(self: &Arc<Self>) {
        self.0.store(true, Ordering::SeqCst);
    }
}

struct Task {
    name: String,
    fut: Option<Pin<Box<dyn Future<Output = ()>>>>,
    flag: Arc<Flag>,
    polls: u64,
}

#[derive(Debug, Clone, PartialEq, Eq)]
pub enum RunEnd {
    /// no task is ready
    Quiescent,
    /// the poll budget was used up (livelock or too small a budget): inconclusive
    Budget,
}

type Pending = Rc<RefCell<Vec<(String, Pin<Box<dyn Future<Output = ()>>>)>>>;

/// Lets a running task start further tasks; they are adopted by the executor before its next
/// scheduling decision.
#[derive(Clone)]
pub struct Spawner(Pending);

impl Spawner {
    pub fn spawn(&self, name: &str, fut: impl Future<Output = ()> + 'static) {
        self.0.borrow_mut().push((name.to_string(), Box::pin(fut)));
    }
}

pub struct Dx {
    pending: Pending,
    tasks: Vec<Task>,
    pub polls: u64,
    pub trace: u64,
    pub panics: Vec<(String, String)>,
    /// probability (num/den) of an extra, legal spurious poll of a non-ready live task
    pub spurious: (usize, usize),
}

pub type Slot<T> = Rc<RefCell<Option<T>>>;

impl Default for Dx {
    fn default() -> Self {
        Self::new()
    }
}

impl Dx {
    pub fn new() -> Self {
        Dx { pending: Rc::new(RefCell::new(Vec::new())), tasks: Vec::new(), polls: 0, trace: 0xcbf29ce484222325, panics: Vec::new(), spurious: (0, 1) }
    }

    pub fn spawner(&self) -> Spawner {
        Spawner(self.pending.clone())
    }

    /// Adopts tasks started through a `Spawner`.
    pub fn adopt(&mut self) {
        let new: Vec<_> = self.pending.borrow_mut().drain(..).collect();
        for (name, fut) in new {
            self.tasks.push(Task { name, fut: Some(fut), flag: Arc::new(Flag(AtomicBool::new(true))), polls: 0 });
        }
    }

    pub fn spawn(&mut self, name: &str, fut: impl Future<Output = ()> + 'static) -> TaskId {
        self.tasks.push(Task {
            name: name.to_string(),
            fut: Some(Box::pin(fut)),
            flag: Arc::new(Flag(AtomicBool::new(true))),
            polls: 0,
        });
        self.tasks.len() - 1
    }

    /// Spawns a task whose output lands in the returned slot.
    pub fn spawn_out<T: 'static>(&mut self, name: &str, fut: impl Future<Output = T> + 'static) -> (TaskId, Slot<T>) {
        let slot: Slot<T> = Rc::new(RefCell::new(None));
        let s2 = slot.clone();
        let id = self.spawn(name, async move {
            let v = fut.await;
            *s2.borrow_mut() = Some(v);
        });
        (id, slot)
    }

    pub fn name(&self, id: TaskId) -> &str {
        &self.tasks[id].name
    }

    pub fn is_done(&self, id: TaskId) -> bool {
        self.tasks[id].fut.is_none()
    }

    pub fn is_ready(&self, id: TaskId) -> bool {
        self.tasks[id].fut.is_some() && self.tasks[id].flag.0.load(Ordering::SeqCst)
    }

    pub fn task_polls(&self, id: TaskId) -> u64 {
        self.tasks[id].polls
    }

    /// Drops the task's future (e.g. "the Connection future is dropped").
    pub fn kill(&mut self, id: TaskId) {
        let f = self.tasks[id].fut.take();
        if let Some(f) = f {
            if let Err(p) = guard::guarded(move || drop(f)) {
                self.panics.push((format!("drop of {}", self.tasks[id].name), p));
            }
        }
    }

    /// Polls the task once regardless of its ready bit (a spurious poll is legal).
    pub fn poll_once(&mut self, id: TaskId) {
        let Some(mut fut) = self.tasks[id].fut.take() else { return };
        self.tasks[id].flag.0.store(false, Ordering::SeqCst);
        self.polls += 1;
        self.tasks[id].polls += 1;
        self.trace = (self.trace ^ (id as u64 + 1)).wrapping_mul(0x100000001b3);
        let waker = Waker::from(self.tasks[id].flag.clone());
        if let Ok(mut g) = CURRENT_TASK.try_lock() {
            g.clear();
            g.push_str(&self.tasks[id].name);
        }
        HEARTBEAT.fetch_add(1, Ordering::Relaxed);
        IN_POLL.store(true, Ordering::SeqCst);
        let res = guard::guarded(|| {
            let mut cx = Context::from_waker(&waker);
            fut.as_mut().poll(&mut cx)
        });
        IN_POLL.store(false, Ordering::SeqCst);
        match res {
            Ok(Poll::Pending) => self.tasks[id].fut = Some(fut),
            Ok(Poll::Ready(())) => {
                if let Err(p) = guard::guarded(move || drop(fut)) {
                    self.panics.push((format!("drop of {}", self.tasks[id].name), p));
                }
            }
            Err(p) => {
                self.panics.push((self.tasks[id].name.clone(), p));
                // the future is in an unknown state; leak it rather than run its destructors
                std::mem::forget(fut);
            }
        }
    }

    /// Polls `id` while it is ready (bounded); returns the number of polls.
    pub fn run_task(&mut self, id: TaskId) -> u64 {
        let mut n = 0;
        while self.is_ready(id) && n < 10_000 {
            self.poll_once(id);
            n += 1;
        }
        n
    }

    pub fn any_ready(&self) -> bool {
        (0..self.tasks.len()).any(|i| self.is_ready(i))
    }

    pub fn ready_set(&self) -> Vec<TaskId> {
        (0..self.tasks.len()).filter(|&i| self.is_ready(i)).collect()
    }

    /// Scripted: repeatedly runs the tasks in `order` (each until it stalls) until none of them
    /// is ready.
    pub fn run_order(&mut self, order: &[TaskId], budget: u64) -> RunEnd {
        let start = self.polls;
        loop {
            let mut progressed = false;
            for &id in order {
                if self.is_ready(id) {
                    self.run_task(id);
                    progressed = true;
                }
            }
            if !progressed {
                return RunEnd::Quiescent;
            }
            if self.polls - start > budget {
                return RunEnd::Budget;
            }
        }
    }

    /// Random: draws the next task from the ready set until quiescence or budget.
    pub fn run_random(&mut self, rng: &mut Rng, budget: u64) -> RunEnd {
        let start = self.polls;
        loop {
            self.adopt();
            let ready = self.ready_set();
            if ready.is_empty() {
                return RunEnd::Quiescent;
            }
            if self.polls - start > budget {
                return RunEnd::Budget;
            }
            if self.spurious.0 > 0 && rng.chance(self.spurious.0, self.spurious.1) {
                let live: Vec<TaskId> = (0..self.tasks.len()).filter(|&i| self.tasks[i].fut.is_some()).collect();
                let id = *rng.pick(&live);
                self.poll_once(id);
                continue;
            }
            let id = *rng.pick(&ready);
            self.poll_once(id);
        }
    }

    /// Random mode, one poll: false if nothing is ready.
    pub fn step_random(&mut self, rng: &mut Rng) -> bool {
        self.adopt();
        let ready = self.ready_set();
        if ready.is_empty() {
            return false;
        }
        if self.spurious.0 > 0 && rng.chance(self.spurious.0, self.spurious.1) {
            let live: Vec<TaskId> = (0..self.tasks.len()).filter(|&i| self.tasks[i].fut.is_some()).collect();
            let id = *rng.pick(&live);
            self.poll_once(id);
            return true;
        }
        let id = *rng.pick(&ready);
        self.poll_once(id);
        true
    }

    pub fn live_tasks(&self) -> Vec<(TaskId, String)> {
        (0..self.tasks.len()).filter(|&i| self.tasks[i].fut.is_some()).map(|i| (i, self.tasks[i].name.clone())).collect()
    }

    /// Drops all remaining futures (in reverse order), recording panics in destructors.
    pub fn shutdown(&mut self) {
        for id in (0..self.tasks.len()).rev() {
            self.kill(id);
        }
    }
}

/// Polls a future once with a no-op waker; `None` if it is not ready.
pub fn now_or_never<T>(fut: impl Future<Output = T>) -> Option<T> {
    let flag = Arc::new(Flag(AtomicBool::new(false)));
    let waker = Waker::from(flag);
    let mut cx = Context::from_waker(&waker);
    let mut fut = Box::pin(fut);
    match fut.as_mut().poll(&mut cx) {
        Poll::Ready(v) => Some(v),
        Poll::Pending => None,
    }
}

/// One-shot value with wakers, for coordination between harness tasks on `dx`.
pub struct Signal<T>(Rc<RefCell<(Option<T>, Vec<Waker>)>>);

impl<T> Clone for Signal<T> {
    fn clone(&self) -> Self {
        Signal(self.0.clone())
    }
}

impl<T: Clone> Signal<T> {
    pub fn new() -> Self {
        Signal(Rc::new(RefCell::new((None, Vec::new()))))
    }
    pub fn set(&self, v: T) {
        let ws: Vec<Waker> = {
            let mut g = self.0.borrow_mut();
            g.0 = Some(v);
            g.1.drain(..).collect()
        };
        for w in ws {
            w.wake();
        }
    }
    pub fn get(&self) -> Option<T> {
        self.0.borrow().0.clone()
    }
    pub fn wait(&self) -> SignalWait<T> {
        SignalWait(self.clone())
    }
}

impl<T: Clone> Default for Signal<T> {
    fn default() -> Self {
        Self::new()
    }
}

pub struct SignalWait<T>(Signal<T>);

impl<T: Clone> Future for SignalWait<T> {
    type Output = T;
    fn poll(self: Pin<&mut Self>, cx: &mut Context) -> Poll<T> {
        let mut g = (self.0).0.borrow_mut();
        match &g.0 {
            Some(v) => Poll::Ready(v.clone()),
            None => {
                g.1.push(cx.waker().clone());
                Poll::Pending
            }
        }
    }
}

/// Polls the inner future at most `n` times (keeping itself scheduled), then drops it.
pub struct CancelAfter<F> {
    pub fut: Option<Pin<Box<F>>>,
    pub left: u32,
}

pub fn cancel_after<F: Future>(fut: F, n: u32) -> CancelAfter<F> {
    CancelAfter { fut: Some(Box::pin(fut)), left: n }
}

impl<F: Future> Future for CancelAfter<F> {
    type Output = Option<F::Output>;
    fn poll(mut self: Pin<&mut Self>, cx: &mut Context) -> Poll<Self::Output> {
        let this = &mut *self;
        let Some(f) = this.fut.as_mut() else { return Poll::Ready(None) };
        if this.left == 0 {
            this.fut = None;
            return Poll::Ready(None);
        }
        this.left -= 1;
        match f.as_mut().poll(cx) {
            Poll::Ready(v) => {
                this.fut = None;
                Poll::Ready(Some(v))
            }
            Poll::Pending => {
                cx.waker().wake_by_ref();
                Poll::Pending
            }
        }
    }
}

/// Yields once to the executor.
pub struct YieldNow(pub bool);

impl Future for YieldNow {
    type Output = ();
    fn poll(mut self: Pin<&mut Self>, cx: &mut Context) -> Poll<()> {
        if self.0 {
            Poll::Ready(())
        } else {
            self.0 = true;
            cx.waker().wake_by_ref();
            Poll::Pending
        }
    }
}
