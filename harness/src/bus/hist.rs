//! One model-checked history on the protocol-level rig: generate, run in bursts, compare, and
//! (optionally) cross-check the broker's own books (snapshot hook, statistics) after each burst.

use super::gen::{Gen, Op, Profile};
use super::model::{ConnState, Input};
use super::rig::{describe_input, Mismatch, Rig};
use crate::prng::{fnv, Rng};
use crate::report::Outcome;
use serde_json::json;

#[derive(Clone, Debug, Default)]
pub struct HistOpts {
    /// compare snapshot sizes / statistics gauges with the model after every burst
    pub books: bool,
    /// end: terminate all connections, demand an all-zero snapshot and a completing
    /// shutdown_idle
    pub teardown: bool,
    /// end with BrokerHandle::shutdown instead
    pub broker_shutdown: bool,
}

pub struct HistResult {
    pub mismatch: Option<Mismatch>,
    pub panics: Vec<(String, String)>,
    pub version_violations: Vec<String>,
    pub order_violations: Vec<String>,
    pub events: Vec<String>,
    pub steps: u64,
    pub bursts: u64,
    pub hash: u64,
    pub inconclusive: Option<String>,
}

/// Which property owns a disagreement about a message of this kind.
pub fn class_of(kind: &str) -> &'static str {
    match kind {
        "CallFunction" | "CallFunction2" | "CallFunctionReply" | "AbortFunctionCall" => "C02",
        "CreateObject" | "CreateObjectReply" | "DestroyObject" | "DestroyObjectReply" | "CreateService" | "CreateService2"
        | "CreateServiceReply" | "DestroyService" | "DestroyServiceReply" | "QueryServiceVersion" | "QueryServiceVersionReply"
        | "QueryServiceInfo" | "QueryServiceInfoReply" => "C03",
        "SubscribeEvent" | "SubscribeEventReply" | "UnsubscribeEvent" | "EmitEvent" | "SubscribeAllEvents" | "SubscribeAllEventsReply"
        | "UnsubscribeAllEvents" | "UnsubscribeAllEventsReply" | "SubscribeService" | "SubscribeServiceReply" | "UnsubscribeService"
        | "ServiceDestroyed" => "C04",
        "CreateChannel" | "CreateChannelReply" | "ClaimChannelEnd" | "ClaimChannelEndReply" | "ChannelEndClaimed" | "CloseChannelEnd"
        | "CloseChannelEndReply" | "ChannelEndClosed" | "SendItem" | "ItemReceived" | "AddChannelCapacity" => "C05",
        "CreateBusListener" | "CreateBusListenerReply" | "DestroyBusListener" | "DestroyBusListenerReply" | "AddBusListenerFilter"
        | "RemoveBusListenerFilter" | "ClearBusListenerFilters" | "StartBusListener" | "StartBusListenerReply" | "StopBusListener"
        | "StopBusListenerReply" | "EmitBusEvent" | "BusListenerCurrentFinished" => "C10",
        "Shutdown" | "disconnect" => "C09",
        _ => "C11",
    }
}

pub fn run_history(rng: Rng, profile: Profile, opts: &HistOpts, out: &mut Outcome) -> HistResult {
    let mut rig = Rig::new();
    let mut gen = Gen::new(rng, profile.clone());
    let mut res = HistResult {
        mismatch: None,
        panics: Vec::new(),
        version_violations: Vec::new(),
        order_violations: Vec::new(),
        events: Vec::new(),
        steps: 0,
        bursts: 0,
        hash: 0,
        inconclusive: None,
    };
    let n0 = gen.rng.range(profile.conns.0, profile.conns.1);
    for _ in 0..n0 {
        let v = *gen.rng.pick(&profile.versions);
        rig.connect(v);
    }
    let mut done_ops = 0usize;
    let mut tries = 0usize;
    'outer: while done_ops < profile.ops && tries < profile.ops * 20 {
        // assemble a burst
        let mut burst: Vec<Input> = Vec::new();
        let mut terminated: Vec<usize> = Vec::new();
        loop {
            tries += 1;
            if tries > profile.ops * 20 {
                break;
            }
            gen.remember(rig.model());
            gen.max_real_serial = rig.cands[0].bind.max_real_call_serial();
            let Some(inp) = gen.next(rig.model()) else { continue };
            match &inp {
                Input::Connect(v) => {
                    if !burst.is_empty() {
                        break;
                    }
                    rig.connect(*v);
                    out.count("op:Connect", 1);
                    done_ops += 1;
                    continue 'outer;
                }
                Input::Msg(c, _) | Input::CloseTransport(c) | Input::HandleShutdown(c) | Input::DropFuture(c) | Input::WriteFault(c) => {
                    // nothing can be sent by a connection after its own termination
                    if terminated.contains(c) {
                        continue;
                    }
                    if matches!(inp, Input::Msg(_, aldrin_core::message::Message::Shutdown(_)) | Input::CloseTransport(_) | Input::DropFuture(_)) {
                        terminated.push(*c);
                    }
                }
                _ => {}
            }
            burst.push(inp);
            done_ops += 1;
            if burst.len() >= profile.max_burst || !gen.rng.chance(profile.burst_pct, 100) {
                break;
            }
        }
        if burst.is_empty() {
            continue;
        }
        for i in &burst {
            let name = match i {
                Input::Msg(_, m) => format!("op:{:?}", aldrin_core::message::MessageOps::kind(m)),
                Input::CloseTransport(_) => "op:CloseTransport".into(),
                Input::HandleShutdown(_) => "op:HandleShutdown".into(),
                Input::DropFuture(_) => "op:DropFuture".into(),
                Input::BrokerShutdown => "op:BrokerShutdown".into(),
                Input::Connect(_) => "op:Connect".into(),
                Input::WriteFault(_) => "op:WriteFault".into(),
                Input::EndOfBurst => "op:EndOfBurst".into(),
            };
            out.count(&name, 1);
        }
        if burst.len() > 1 {
            out.count("bursts_of_several_inputs", 1);
        }
        res.bursts += 1;
        if let Err(e) = rig.burst(&burst) {
            res.mismatch = Some(e);
            break;
        }
        if !rig.dx.panics.is_empty() {
            break;
        }
        if opts.books {
            if let Err(e) = check_books(&mut rig, out) {
                res.mismatch = Some(e);
                break;
            }
        }
    }
    if res.mismatch.is_none() && rig.dx.panics.is_empty() && (opts.teardown || opts.broker_shutdown) {
        if let Err(e) = teardown(&mut rig, &mut gen, opts, out) {
            res.mismatch = Some(e);
        }
    }
    if rig.budget_hit {
        res.inconclusive = Some("settle loop exceeded its round budget".into());
    }
    out.max("model_state_set_max", rig.max_cands as u64);
    out.count("dropped_connection_detections", rig.zombie_detections);
    for k in &rig.kinds_delivered {
        out.seen("kinds_delivered", k.clone());
    }
    for k in &rig.kinds_sent {
        out.seen("kinds_sent", k.clone());
    }
    out.count("polls", rig.dx.polls);
    for (k, v) in &rig.clauses {
        out.count(&format!("observed: {}", k), *v);
    }
    res.steps = rig.steps;
    res.panics = rig.dx.panics.clone();
    res.version_violations = rig.version_violations.clone();
    res.order_violations = rig.order_violations.clone();
    res.hash = fnv(rig.events.join("\n").as_bytes()) ^ rig.dx.trace;
    res.events = std::mem::take(&mut rig.events);
    rig.dx.shutdown();
    res
}

#[cfg(feature = "hooks")]
pub fn check_books(rig: &mut Rig, out: &mut Outcome) -> Result<(), Mismatch> {
    let Some(snap) = rig.snapshot() else {
        return Err(Mismatch { what: "snapshot-unavailable".into(), kind: "disconnect".into(), detail: "broker did not answer the snapshot request".into() });
    };
    out.count("snapshots", 1);
    rig.prune_by_conn_count(snap.conns)?;
    if !snap.inconsistencies.is_empty() {
        return Err(Mismatch {
            what: "broker-cross-reference".into(),
            kind: "disconnect".into(),
            detail: format!("cross-reference walk inside the broker: {:?}", snap.inconsistencies),
        });
    }
    let stats = rig.statistics();
    let ok = rig.cands.iter().any(|c| {
        let k = c.model.live_counts();
        snap.objs == k.objects
            && snap.obj_uuids == k.objects
            && snap.svcs == k.services
            && snap.svc_uuids == k.services
            && snap.channels == k.channels
            && snap.bus_listeners == k.listeners
            && snap.function_calls == k.calls
    });
    if !ok {
        return Err(Mismatch {
            what: "residual-state".into(),
            kind: "disconnect".into(),
            detail: format!("broker books {:?} vs model {:?}", snap, rig.cands.iter().map(|c| c.model.live_counts()).collect::<Vec<_>>()),
        });
    }
    if let Some(st) = stats {
        out.count("statistics_taken", 1);
        let ok = rig.cands.iter().any(|c| {
            let k = c.model.live_counts();
            st.num_connections() == k.conns
                && st.num_objects() == k.objects
                && st.num_services() == k.services
                && st.num_channels() == k.channels
                && st.num_bus_listeners() == k.listeners
        });
        if !ok {
            let k = rig.cands[0].model.live_counts();
            let which = if st.num_connections() != k.conns {
                "connections"
            } else if st.num_objects() != k.objects {
                "objects"
            } else if st.num_services() != k.services {
                "services"
            } else if st.num_channels() != k.channels {
                "channels"
            } else {
                "bus-listeners"
            };
            return Err(Mismatch {
                what: format!("statistics-gauge:{}", which),
                kind: "disconnect".into(),
                detail: format!(
                    "published gauges conns={} objs={} svcs={} chans={} listeners={} vs true counts {:?}",
                    st.num_connections(),
                    st.num_objects(),
                    st.num_services(),
                    st.num_channels(),
                    st.num_bus_listeners(),
                    k
                ),
            });
        }
    }
    Ok(())
}

#[cfg(not(feature = "hooks"))]
pub fn check_books(_rig: &mut Rig, _out: &mut Outcome) -> Result<(), Mismatch> {
    Ok(())
}

fn teardown(rig: &mut Rig, gen: &mut Gen, opts: &HistOpts, out: &mut Outcome) -> Result<(), Mismatch> {
    if opts.broker_shutdown {
        rig.burst(&[Input::BrokerShutdown])?;
        out.count("broker_shutdowns", 1);
        if !rig.dx.is_done(rig.broker_task) {
            return Err(Mismatch { what: "broker-did-not-terminate".into(), kind: "disconnect".into(), detail: "Broker::run still pending after shutdown()".into() });
        }
        for (i, c) in rig.conns.iter().enumerate() {
            if !c.dropped && !rig.dx.is_done(c.task) {
                return Err(Mismatch { what: "connection-task-hangs".into(), kind: "disconnect".into(), detail: format!("Connection::run of #{} still pending after broker shutdown", i) });
            }
        }
        return Ok(());
    }
    // end every connection in a random way, then idle shutdown
    loop {
        let alive: Vec<usize> = (0..rig.model().conns.len()).filter(|&c| matches!(rig.model().conns[c].state, ConnState::Alive | ConnState::Mute)).collect();
        if alive.is_empty() {
            break;
        }
        let c = *gen.rng.pick(&alive);
        let inp = match gen.rng.below(3) {
            0 => Input::Msg(c, aldrin_core::message::Shutdown.into()),
            1 => Input::CloseTransport(c),
            _ => Input::HandleShutdown(c),
        };
        rig.burst(&[inp])?;
        if opts.books {
            check_books(rig, out)?;
        }
    }
    // a dropped connection that nobody has noticed yet keeps the broker busy by design
    let zombies = rig.cands.iter().all(|c| c.model.conns.iter().any(|x| x.state == ConnState::Zombie));
    let done = rig.shutdown_idle();
    out.count("idle_shutdowns_requested", 1);
    if zombies {
        out.count("idle_shutdown_with_unnoticed_dropped_connection", 1);
        return Ok(());
    }
    if !done {
        return Err(Mismatch {
            what: "idle-shutdown-does-not-complete".into(),
            kind: "disconnect".into(),
            detail: "all connections are gone but Broker::run did not return after shutdown_idle".into(),
        });
    }
    for (i, c) in rig.conns.iter().enumerate() {
        if !c.dropped && !rig.dx.is_done(c.task) {
            return Err(Mismatch { what: "connection-task-hangs".into(), kind: "disconnect".into(), detail: format!("Connection::run of #{} still pending", i) });
        }
        let r = c.result.borrow().clone().unwrap_or_default();
        let expect_ok = matches!(c.ended_by, Some("client-shutdown") | Some("handle-shutdown") | Some("broker-shutdown"));
        if !c.dropped && expect_ok && r != "run:Ok" && rig.model().conns[i].state == ConnState::Gone {
            // a connection the broker had to close for a protocol violation ends with an error
            out.count(&format!("conn_result:{}", r.split('(').next().unwrap_or("?")), 1);
        }
    }
    Ok(())
}

/// Shared reporting: turns a history result into outcome entries for property `own`.
pub fn report(own: &[&str], res: &HistResult, out: &mut Outcome, case: u64, seed: u64, sample_every: u64) {
    out.eval();
    out.count("steps", res.steps);
    out.count("bursts", res.bursts);
    if res.steps >= 5 {
        out.distinct_case(res.hash);
    }
    if case % sample_every == 0 {
        out.sample(json!({"case": case, "events_head": res.events.iter().take(14).cloned().collect::<Vec<_>>(), "steps": res.steps}));
    }
    if let Some(why) = &res.inconclusive {
        out.inconclusive(why.clone());
    }
    let tail: Vec<String> = res.events.iter().rev().take(60).rev().cloned().collect();
    for (task, p) in &res.panics {
        out.violation(
            format!("panic:{}:{}", task.trim_end_matches(char::is_numeric), crate::guard::panic_site(p)),
            format!("task {} panicked: {}", task, p),
            json!({"case": case, "seed": seed, "events_tail": tail}),
        );
    }
    if let Some(m) = &res.mismatch {
        let class = class_of(&m.kind);
        if m.what == "harness" {
            out.inconclusive(format!("harness could not inject an input: {}", m.detail));
        } else if own.contains(&class) || own.contains(&"*") {
            out.violation(format!("{}:{}", m.what, m.kind), m.detail.clone(), json!({"case": case, "seed": seed, "events_tail": tail}));
        } else {
            out.count(&format!("foreign_mismatch[{}:{}:{}]", class, m.what, m.kind), 1);
        }
    }
    if own.contains(&"C12") || own.contains(&"*") {
        for v in &res.version_violations {
            out.violation("version-monitor", v.clone(), json!({"case": case, "seed": seed, "events_tail": tail}));
        }
    }
    if own.contains(&"C10") || own.contains(&"*") {
        for v in &res.order_violations {
            out.violation("bus-event-outside-lifetime", v.clone(), json!({"case": case, "seed": seed, "events_tail": tail}));
        }
    }
    let _ = describe_input;
    let _ = Op::Sync;
}

// ---------------------------------------------------------------------------------------------
// Fault enumeration (C09): the same history is re-run once per (cut point, victim, way, queue
// state); the prefix is reproduced exactly because every random choice derives from the seed and
// the model state.
// ---------------------------------------------------------------------------------------------

#[derive(Clone, Copy, Debug, PartialEq, Eq)]
pub enum Way {
    ClientShutdown,
    TransportClosed,
    HandleShutdown,
    FutureDropped,
    /// half-open transport: the connection task's writes towards the client fail
    WriteFault,
}

pub const WAYS: [Way; 5] = [Way::ClientShutdown, Way::TransportClosed, Way::HandleShutdown, Way::FutureDropped, Way::WriteFault];

#[derive(Clone, Copy, Debug)]
pub struct FaultPlan {
    /// number of operations dequeued before the termination
    pub k: usize,
    /// index into the connections alive at that point
    pub victim: usize,
    pub way: Way,
    /// 0: the broker queue is empty; 1: requests of the victim are queued ahead of the
    /// termination; 2 (handle only): the termination is queued ahead of the victim's requests
    pub queued: u8,
}

pub struct FaultRun {
    pub res: HistResult,
    /// connections alive at each cut point of the prefix (filled by a planning run)
    pub alive_at: Vec<usize>,
    pub applicable: bool,
}

pub fn run_fault(seed_rng: Rng, profile: Profile, plan: Option<FaultPlan>, out: &mut Outcome) -> FaultRun {
    let mut rig = Rig::new();
    rig.log_on = true;
    let mut gen = Gen::new(seed_rng, profile.clone());
    let mut res = HistResult { mismatch: None, panics: Vec::new(), version_violations: Vec::new(), order_violations: Vec::new(), events: Vec::new(), steps: 0, bursts: 0, hash: 0, inconclusive: None };
    let mut alive_at = Vec::new();
    let n0 = gen.rng.range(profile.conns.0, profile.conns.1);
    for _ in 0..n0 {
        let v = *gen.rng.pick(&profile.versions);
        rig.connect(v);
    }
    let limit = plan.map(|p| p.k).unwrap_or(profile.ops);
    let mut done = 0usize;
    let mut tries = 0usize;
    let mut applicable = plan.is_none();
    // prefix: one operation at a time, so that cut points are well defined
    while done < limit && tries < profile.ops * 30 {
        tries += 1;
        gen.remember(rig.model());
        let alive = rig.model().conns.iter().filter(|c| c.state == ConnState::Alive).count();
        let Some(inp) = gen.next(rig.model()) else { continue };
        alive_at.push(alive);
        done += 1;
        if let Input::Connect(v) = inp {
            rig.connect(v);
            continue;
        }
        if let Err(e) = rig.burst(&[inp]) {
            res.mismatch = Some(e);
            break;
        }
        if !rig.dx.panics.is_empty() {
            break;
        }
        if plan.is_some() {
            if let Err(e) = check_books(&mut rig, out) {
                res.mismatch = Some(e);
                break;
            }
        }
    }
    if let (Some(p), true) = (plan, res.mismatch.is_none() && rig.dx.panics.is_empty() && done == limit) {
        let alive: Vec<usize> = (0..rig.model().conns.len()).filter(|&c| rig.model().conns[c].state == ConnState::Alive).collect();
        if p.victim < alive.len() {
            applicable = true;
            let v = alive[p.victim];
            let mut burst: Vec<Input> = Vec::new();
            let term = match p.way {
                Way::ClientShutdown => Input::Msg(v, aldrin_core::message::Shutdown.into()),
                Way::TransportClosed => Input::CloseTransport(v),
                Way::HandleShutdown => Input::HandleShutdown(v),
                Way::FutureDropped => Input::DropFuture(v),
                Way::WriteFault => Input::WriteFault(v),
            };
            let mut own: Vec<Input> = Vec::new();
            if p.queued > 0 {
                let n = 1 + gen.rng.below(3);
                for _ in 0..n {
                    gen.remember(rig.model());
                    if let Some(i) = gen.next_for(rig.model(), v) {
                        own.push(i);
                    }
                }
            }
            if p.queued == 2 {
                burst.push(term);
                burst.extend(own);
            } else {
                burst.extend(own);
                burst.push(term);
            }
            rig.log(format!("-- termination of #{} {:?} queued={}", v, p.way, p.queued));
            let r = rig.burst(&burst).and_then(|_| check_books(&mut rig, out));
            if let Err(e) = r {
                res.mismatch = Some(e);
            }
            // a dropped task is only noticed at the next delivery attempt: provoke one
            if res.mismatch.is_none() && rig.dx.panics.is_empty() && matches!(p.way, Way::FutureDropped | Way::WriteFault) {
                if let Err(e) = provoke_delivery(&mut rig, &mut gen, v, out) {
                    res.mismatch = Some(e);
                }
            }
            // the bus keeps working for the others
            let mut post = 0;
            let mut t2 = 0;
            while res.mismatch.is_none() && rig.dx.panics.is_empty() && post < 5 && t2 < 100 {
                t2 += 1;
                gen.remember(rig.model());
                let Some(inp) = gen.next(rig.model()) else { continue };
                post += 1;
                if let Input::Connect(ver) = inp {
                    rig.connect(ver);
                    continue;
                }
                if matches!(inp, Input::DropFuture(_) | Input::WriteFault(_)) {
                    continue;
                }
                let r = rig.burst(&[inp]).and_then(|_| check_books(&mut rig, out));
                if let Err(e) = r {
                    res.mismatch = Some(e);
                }
            }
            if res.mismatch.is_none() && rig.dx.panics.is_empty() {
                let opts = HistOpts { books: true, teardown: true, broker_shutdown: false };
                if let Err(e) = teardown(&mut rig, &mut gen, &opts, out) {
                    res.mismatch = Some(e);
                } else if let Err(e) = final_books(&mut rig) {
                    res.mismatch = Some(e);
                }
            }
        }
    }
    if rig.budget_hit {
        res.inconclusive = Some("settle loop exceeded its round budget".into());
    }
    out.max("model_state_set_max", rig.max_cands as u64);
    out.count("dropped_connection_detections", rig.zombie_detections);
    for k in &rig.kinds_delivered {
        out.seen("kinds_delivered", k.clone());
    }
    for (k, v) in &rig.clauses {
        out.count(&format!("observed: {}", k), *v);
    }
    res.steps = rig.steps;
    res.panics = rig.dx.panics.clone();
    res.hash = fnv(rig.events.join("\n").as_bytes());
    res.events = std::mem::take(&mut rig.events);
    rig.dx.shutdown();
    FaultRun { res, alive_at, applicable }
}

/// Makes the broker try to deliver something to the dropped connection `v`: a call to one of
/// its services, the closing of a channel peer end, or (fallback) a forced shutdown.
fn provoke_delivery(rig: &mut Rig, gen: &mut Gen, v: usize, out: &mut Outcome) -> Result<(), Mismatch> {
    use aldrin_core::message::*;
    if rig.cands.iter().all(|c| c.model.conns[v].state == ConnState::Gone) {
        out.count("dropped_noticed_without_probe", 1);
        return Ok(());
    }
    let m = rig.model().clone();
    let others: Vec<usize> = (0..m.conns.len()).filter(|&c| c != v && m.conns[c].state == ConnState::Alive).collect();
    let svc = m.svcs.values().find(|s| s.owner == v).map(|s| s.cookie);
    let inp = match (svc, others.first()) {
        (Some(sc), Some(&o)) => {
            out.count("dropped_probe:call", 1);
            let mut serial = 77_000;
            while m.conns[o].calls.contains_key(&serial) {
                serial += 1;
            }
            Input::Msg(o, CallFunction { serial, service_cookie: sc, function: 0, value: gen.payload(m.conns[o].version) }.into())
        }
        _ => {
            out.count("dropped_probe:forced-shutdown", 1);
            Input::HandleShutdown(v)
        }
    };
    rig.burst(&[inp])?;
    check_books(rig, out)?;
    if !rig.cands.iter().all(|c| c.model.conns[v].state == ConnState::Gone) {
        return Err(Mismatch {
            what: "dropped-connection-not-released".into(),
            kind: "disconnect".into(),
            detail: format!("connection #{} (task dropped or transport half-open) is still in the broker's books after a delivery to it was attempted", v),
        });
    }
    Ok(())
}

#[cfg(feature = "hooks")]
fn final_books(rig: &mut Rig) -> Result<(), Mismatch> {
    // the broker may already have returned (idle shutdown): then there is nothing left to ask
    if rig.dx.is_done(rig.broker_task) {
        return Ok(());
    }
    if let Some(s) = rig.snapshot() {
        let zero = s.objs + s.obj_uuids + s.svcs + s.svc_uuids + s.function_calls + s.channels + s.bus_listeners + s.introspection + s.query_introspection;
        let zombies = rig.model().conns.iter().any(|c| c.state == ConnState::Zombie);
        if zero != 0 && !zombies {
            return Err(Mismatch { what: "residual-state".into(), kind: "disconnect".into(), detail: format!("all connections are gone but the broker still holds {:?}", s) });
        }
    }
    Ok(())
}

#[cfg(not(feature = "hooks"))]
fn final_books(_rig: &mut Rig) -> Result<(), Mismatch> {
    Ok(())
}
