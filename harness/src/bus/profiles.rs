//! Workload profiles of the protocol-level checks.

use super::gen::{Op, Profile};
use Op::*;

fn base(name: &'static str) -> Profile {
    Profile {
        name,
        conns: (2, 4),
        max_conns_total: 6,
        versions: vec![14, 15, 16, 17, 18, 19, 20, 20],
        weights: vec![],
        obj_pool: 3,
        svc_pool: 3,
        events: vec![0, 1, 7],
        capacities: vec![0, 1, 3, 4, 5, 16, u32::MAX - 1, u32::MAX],
        stale_pct: 10,
        burst_pct: 35,
        max_burst: 5,
        ops: 60,
        payload_depth: 3,
    }
}

const DISCONNECTS: [(Op, u32); 6] = [(DisconnectShutdown, 2), (DisconnectClose, 2), (DisconnectHandle, 2), (DisconnectDrop, 2), (DisconnectMute, 2), (Connect, 6)];

pub fn calls() -> Profile {
    let mut p = base("calls");
    p.obj_pool = 2;
    p.svc_pool = 2;
    p.weights = vec![
        (CreateObject, 8),
        (CreateService, 8),
        (CreateService2, 4),
        (DestroyService, 3),
        (DestroyObject, 3),
        (Call, 30),
        (CallDupSerial, 1),
        (Reply, 18),
        (ReplyNonOwner, 4),
        (ReplyStale, 4),
        (Abort, 8),
        (AbortUnknown, 2),
        (Sync, 1),
    ];
    p.weights.extend(DISCONNECTS);
    p
}

pub fn registry() -> Profile {
    let mut p = base("registry");
    p.conns = (3, 4);
    p.stale_pct = 20;
    p.weights = vec![
        (CreateObject, 16),
        (DestroyObject, 8),
        (CreateService, 12),
        (CreateService2, 8),
        (DestroyService, 8),
        (QueryVersion, 8),
        (QueryInfo, 6),
        (SubscribeEvent, 5),
        (SubscribeService, 3),
        (Call, 6),
        (Reply, 3),
        (Sync, 1),
    ];
    p.weights.extend(DISCONNECTS);
    p
}

pub fn events() -> Profile {
    let mut p = base("events");
    p.conns = (3, 4);
    p.obj_pool = 2;
    p.svc_pool = 2;
    p.weights = vec![
        (CreateObject, 6),
        (CreateService, 4),
        (CreateService2, 8),
        (DestroyService, 3),
        (DestroyObject, 2),
        (SubscribeEvent, 16),
        (UnsubscribeEvent, 10),
        (SubscribeAll, 10),
        (UnsubscribeAll, 7),
        (SubscribeService, 5),
        (UnsubscribeService, 3),
        (Emit, 20),
        (EmitStranger, 4),
        (SubscribeNoSerial, 1),
    ];
    p.weights.extend(DISCONNECTS);
    p
}

pub fn channels() -> Profile {
    let mut p = base("channels");
    p.conns = (2, 3);
    p.max_conns_total = 5;
    p.weights = vec![
        (CreateChannel, 10),
        (ClaimEnd, 12),
        (CloseEnd, 6),
        (SendItem, 40),
        (AddCapacity, 14),
        (Sync, 1),
        (DisconnectShutdown, 1),
        (DisconnectClose, 1),
        (DisconnectHandle, 1),
        (DisconnectDrop, 1),
        (DisconnectMute, 1),
        (Connect, 4),
    ];
    p.ops = 70;
    p
}

pub fn listeners() -> Profile {
    let mut p = base("listeners");
    p.weights = vec![
        (CreateListener, 8),
        (DestroyListener, 3),
        (AddFilter, 14),
        (RemoveFilter, 7),
        (ClearFilters, 2),
        (StartListener, 12),
        (StopListener, 6),
        (CreateObject, 14),
        (DestroyObject, 8),
        (CreateService, 10),
        (CreateService2, 4),
        (DestroyService, 6),
    ];
    p.weights.extend(DISCONNECTS);
    p
}

/// Mixed profile for the cleanup check: everything, with introspection.
pub fn mixed() -> Profile {
    let mut p = base("mixed");
    p.ops = 28;
    p.weights = vec![
        (CreateObject, 10),
        (DestroyObject, 3),
        (CreateService, 6),
        (CreateService2, 6),
        (DestroyService, 3),
        (Call, 10),
        (Reply, 5),
        (Abort, 3),
        (SubscribeEvent, 6),
        (UnsubscribeEvent, 2),
        (SubscribeAll, 4),
        (UnsubscribeAll, 2),
        (SubscribeService, 3),
        (Emit, 4),
        (CreateChannel, 6),
        (ClaimEnd, 6),
        (CloseEnd, 2),
        (SendItem, 6),
        (AddCapacity, 3),
        (CreateListener, 4),
        (AddFilter, 4),
        (StartListener, 4),
        (StopListener, 1),
        (DestroyListener, 1),
        (RegisterIntro, 4),
        (QueryIntro, 5),
        (ReplyIntro, 4),
        (Connect, 3),
    ];
    p
}

/// Introspection registry: many registrants per type id (pool of 3), queries forwarded to one
/// of them, answers by the asked connection and by others, registrants leaving in every order.
pub fn introspection() -> Profile {
    let mut p = base("introspection");
    p.conns = (3, 5);
    p.max_conns_total = 9;
    p.versions = vec![16, 17, 18, 19, 20, 20, 20];
    p.weights = vec![(RegisterIntro, 22), (QueryIntro, 14), (ReplyIntro, 12), (CreateObject, 2), (Sync, 1)];
    p.weights.extend(DISCONNECTS);
    p
}

/// `mixed` with the weight on the introspection registry (C09: registrants terminated at every
/// point, the cross-reference walk checks the registry's index structure).
pub fn mixed_intro() -> Profile {
    let mut p = mixed();
    p.name = "mixed-intro";
    p.conns = (3, 5);
    p.versions = vec![17, 18, 19, 20, 20, 20, 14];
    p.weights.extend([(RegisterIntro, 26), (QueryIntro, 10), (ReplyIntro, 8)]);
    p
}

pub fn versions() -> Profile {
    let mut p = mixed();
    p.name = "versions";
    p.ops = 50;
    p.payload_depth = 5;
    p.weights.push((TooNew, 6));
    p.weights.push((WrongDirection, 2));
    p.weights.extend([(DisconnectShutdown, 1), (DisconnectClose, 1)]);
    p
}

/// Hostile profile: everything of `mixed`, protocol violations, and arbitrary messages of all
/// kinds; long bursts.
pub fn abuse() -> Profile {
    let mut p = mixed();
    p.name = "abuse";
    p.ops = 150;
    p.conns = (3, 5);
    p.max_conns_total = 10;
    p.stale_pct = 25;
    p.max_burst = 8;
    p.burst_pct = 55;
    p.weights.push((Arbitrary, 120));
    p.weights.push((TooNew, 4));
    p.weights.push((WrongDirection, 4));
    p.weights.push((CallDupSerial, 10));
    p.weights.push((ReplyGuess, 12));
    p.weights.push((Call, 20));
    p.weights.push((DestroyService, 6));
    p.weights.push((SubscribeNoSerial, 2));
    p.weights.push((ReplyNonOwner, 4));
    p.weights.push((ReplyStale, 4));
    p.weights.push((AbortUnknown, 3));
    p.weights.push((EmitStranger, 3));
    p.weights.push((Connect, 12));
    p.weights.extend([(DisconnectShutdown, 2), (DisconnectClose, 2), (DisconnectHandle, 1), (DisconnectDrop, 2), (DisconnectMute, 2)]);
    p
}
