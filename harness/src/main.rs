//! vcheck: driver binary. `vcheck <id> --tier quick|thorough [--seed N]` is the parent; it
//! shards the check over child processes of itself, merges their outcomes, applies
//! known_findings.json, writes the evidence file and prints the verdict.
//!
//! Exit codes: 0 held (known findings printed), 1 violation (with VIOLATION line), 2 harness
//! error / inconclusive (never with a VIOLATION line).

use serde_json::{json, Value as J};
use std::collections::HashSet;
use std::io::{BufRead, BufReader, Read, Write};
use std::path::{Path, PathBuf};
use std::process::{Command, Stdio};
use std::time::Instant;
use vlab::checks::{self, Check};
use vlab::report::{Ctx, Outcome, Tier};

struct Args {
    id: String,
    tier: Tier,
    seed: u64,
    child: Option<(usize, usize, PathBuf)>,
    replay: Option<PathBuf>,
    jobs: usize,
    scale: f64,
    mode: String,
    merge_from: Vec<PathBuf>,
    out_json: Option<PathBuf>,
}

fn parse_args() -> Args {
    let argv: Vec<String> = std::env::args().collect();
    if argv.len() < 2 {
        eprintln!("usage: vcheck <id> --tier quick|thorough [--seed N] [--replay file] [--jobs N]");
        std::process::exit(2);
    }
    let mut a = Args {
        id: argv[1].clone(),
        tier: match std::env::var("VERIF_TIER").as_deref() {
            Ok("thorough") => Tier::Thorough,
            _ => Tier::Quick,
        },
        seed: std::env::var("VERIF_SEED").ok().and_then(|s| s.parse().ok()).unwrap_or(20260923),
        child: None,
        replay: None,
        jobs: std::thread::available_parallelism().map(|n| n.get()).unwrap_or(8).min(16),
        scale: 1.0,
        mode: String::new(),
        merge_from: Vec::new(),
        out_json: None,
    };
    let mut i = 2;
    while i < argv.len() {
        let next = |i: usize| argv.get(i + 1).cloned().unwrap_or_default();
        match argv[i].as_str() {
            "--tier" => {
                a.tier = if next(i) == "thorough" { Tier::Thorough } else { Tier::Quick };
                i += 1;
            }
            "--seed" => {
                a.seed = next(i).parse().unwrap_or(a.seed);
                i += 1;
            }
            "--replay" => {
                a.replay = Some(PathBuf::from(next(i)));
                i += 1;
            }
            "--jobs" => {
                a.jobs = next(i).parse().unwrap_or(a.jobs).max(1);
                i += 1;
            }
            "--scale" => {
                a.scale = next(i).parse().unwrap_or(1.0);
                i += 1;
            }
            "--mode" => {
                a.mode = next(i);
                i += 1;
            }
            "--merge" => {
                a.merge_from.push(PathBuf::from(next(i)));
                i += 1;
            }
            "--out-json" => {
                a.out_json = Some(PathBuf::from(next(i)));
                i += 1;
            }
            "--child" => {
                let sh: usize = next(i).parse().unwrap_or(0);
                let n: usize = argv.get(i + 2).and_then(|s| s.parse().ok()).unwrap_or(1);
                let dir = PathBuf::from(argv.get(i + 3).cloned().unwrap_or_default());
                a.child = Some((sh, n, dir));
                i += 3;
            }
            other => {
                eprintln!("unknown argument {}", other);
                std::process::exit(2);
            }
        }
        i += 1;
    }
    a
}

fn verif_root() -> PathBuf {
    if let Ok(p) = std::env::var("VERIF_ROOT") {
        return PathBuf::from(p);
    }
    PathBuf::from("/verif")
}

fn run_child(check: &dyn Check, a: &Args, shard: usize, nshards: usize, dir: &Path) -> ! {
    let ctx = Ctx {
        id: a.id.clone(),
        tier: a.tier,
        seed: a.seed,
        shard,
        nshards,
        scale: a.scale,
        mode: a.mode.clone(),
    };
    let mut out = Outcome::default();
    let total = ((check.total_cases(a.tier) as f64) * a.scale).ceil() as u64;
    let budget = std::time::Duration::from_secs(check.budget_s(a.tier));
    let t0 = Instant::now();
    if shard == 0 {
        check.once(&ctx, &mut out);
    }
    let mut idx = shard as u64;
    let mut stopped_early = false;
    // address-space limit: an allocation driven by an attacker-controlled count aborts this
    // child; the parent attributes the abort to the case recorded in the .cur file
    // (not under Miri or a sanitizer: Miri cannot cross FFI, ASan reserves terabytes of shadow)
    if !cfg!(miri) && a.mode.is_empty() {
        unsafe {
            let lim = libc::rlimit { rlim_cur: 6 << 30, rlim_max: 6 << 30 };
            libc::setrlimit(libc::RLIMIT_AS, &lim);
        }
    }
    // watchdog for polls and calls that never return (a busy loop inside the subject); calls
    // are only watched in native runs (under Miri one call may legitimately take minutes)
    if !cfg!(miri) && a.mode.is_empty() {
        vlab::guard::WATCH_CALLS.store(true, std::sync::atomic::Ordering::Relaxed);
    }
    {
        let hang_path = dir.join(format!("shard-{}.hang", shard));
        std::thread::spawn(move || {
            use std::sync::atomic::Ordering;
            let mut last = u64::MAX;
            let mut same = 0u32;
            loop {
                std::thread::sleep(std::time::Duration::from_secs(1));
                let hb = vlab::bus::dx::HEARTBEAT.load(Ordering::Relaxed);
                if hb == last && vlab::bus::dx::IN_POLL.load(Ordering::SeqCst) {
                    same += 1;
                } else {
                    same = 0;
                }
                last = hb;
                if same >= 20 {
                    let task = vlab::bus::dx::CURRENT_TASK.lock().map(|g| g.clone()).unwrap_or_default();
                    let _ = std::fs::write(&hang_path, task.as_bytes());
                    std::process::exit(97);
                }
            }
        });
    }
    let cur = std::fs::OpenOptions::new().create(true).write(true).open(dir.join(format!("shard-{}.cur", shard))).ok();
    while idx < total {
        if let Some(f) = &cur {
            use std::os::unix::fs::FileExt;
            let _ = f.write_all_at(&idx.to_le_bytes(), 0);
        }
        check.run_case(&ctx, idx, &mut out);
        idx += nshards as u64;
        if (idx / nshards as u64) % 64 == 0 && t0.elapsed() > budget {
            stopped_early = true;
            break;
        }
    }
    if stopped_early {
        out.count("shards_stopped_at_time_budget", 1);
    }
    // distinct hashes go to a side file (binary u64 LE)
    let mut hashes = Vec::with_capacity(out.distinct.len() * 8);
    for h in &out.distinct {
        hashes.extend_from_slice(&h.to_le_bytes());
    }
    let _ = std::fs::write(dir.join(format!("shard-{}.hashes", shard)), hashes);
    let j = out.to_json();
    let _ = std::fs::write(dir.join(format!("shard-{}.json", shard)), serde_json::to_vec(&j).unwrap());
    println!("@@DONE shard={} evaluations={}", shard, out.evaluations);
    std::process::exit(0);
}

fn load_known(root: &Path) -> J {
    match std::fs::read(root.join("known_findings.json")) {
        Ok(b) => serde_json::from_slice(&b).unwrap_or(json!({"findings": []})),
        Err(_) => json!({"findings": []}),
    }
}

fn main() {
    let a = parse_args();
    let Some(check) = checks::find(&a.id) else {
        eprintln!("unknown check {}", a.id);
        std::process::exit(2);
    };
    let check: &dyn Check = &*check;

    if let Some((shard, n, dir)) = &a.child {
        run_child(check, &a, *shard, *n, dir);
    }

    let root = verif_root();

    if let Some(path) = &a.replay {
        replay(check, &a, path);
    }

    let t0 = Instant::now();
    let tmp = std::env::temp_dir().join(format!("vcheck-{}-{}", a.id, std::process::id()));
    let _ = std::fs::remove_dir_all(&tmp);
    std::fs::create_dir_all(&tmp).expect("tmp dir");
    let exe = std::env::current_exe().expect("current_exe");
    let nshards = a.jobs;
    let mut children = Vec::new();
    for shard in 0..nshards {
        let mut cmd = Command::new(&exe);
        cmd.arg(&a.id)
            .arg("--tier")
            .arg(a.tier.name())
            .arg("--seed")
            .arg(a.seed.to_string())
            .arg("--scale")
            .arg(a.scale.to_string())
            .arg("--child")
            .arg(shard.to_string())
            .arg(nshards.to_string())
            .arg(&tmp)
            .stdout(Stdio::piped())
            .stderr(Stdio::piped());
        if !a.mode.is_empty() {
            cmd.arg("--mode").arg(&a.mode);
        }
        children.push((shard, cmd.spawn().expect("spawn child")));
    }

    let mut merged = Outcome::default();
    let mut distinct: HashSet<u64> = HashSet::new();
    let mut harness_errors: Vec<String> = Vec::new();
    let watchdog = std::time::Duration::from_secs(check.budget_s(a.tier) * 2 + 600);
    for (shard, mut child) in children {
        // read stdout fully (children print little)
        let mut last_phase = String::new();
        let mut done = false;
        if let Some(so) = child.stdout.take() {
            for line in BufReader::new(so).lines().map_while(Result::ok) {
                if let Some(p) = line.strip_prefix("@@PHASE ") {
                    last_phase = p.to_string();
                } else if line.starts_with("@@DONE") {
                    done = true;
                }
            }
        }
        let mut err = String::new();
        if let Some(mut se) = child.stderr.take() {
            let _ = se.read_to_string(&mut err);
        }
        let status = child.wait();
        if t0.elapsed() > watchdog {
            merged.inconclusive("wall-clock watchdog exceeded");
        }
        let jpath = tmp.join(format!("shard-{}.json", shard));
        match (status, done) {
            (Ok(st), true) if st.success() => match std::fs::read(&jpath) {
                Ok(b) => {
                    let j: J = serde_json::from_slice(&b).unwrap_or(J::Null);
                    merged.merge_json(&j);
                    if let Ok(h) = std::fs::read(tmp.join(format!("shard-{}.hashes", shard))) {
                        for c in h.chunks_exact(8) {
                            distinct.insert(u64::from_le_bytes(c.try_into().unwrap()));
                        }
                    }
                }
                Err(e) => harness_errors.push(format!("shard {}: no outcome file: {}", shard, e)),
            },
            (Ok(st), _) => {
                use std::os::unix::process::ExitStatusExt;
                if let Some(sig) = st.signal() {
                    let cur_case = std::fs::read(tmp.join(format!("shard-{}.cur", shard)))
                        .ok()
                        .filter(|b| b.len() == 8)
                        .map(|b| u64::from_le_bytes(b[..8].try_into().unwrap()));
                    // The subject killed the process (stack overflow, abort). This is an
                    // observation about the subject only when a phase or case was announced.
                    if sig == 9 {
                        harness_errors.push(format!("shard {} was killed (SIGKILL, e.g. out of memory) at case {:?}; inconclusive", shard, cur_case));
                    } else if let (true, Some(case)) = (last_phase.is_empty() || last_phase == "done", cur_case) {
                        merged.violation(
                            format!("abort:signal{}", sig),
                            format!("child process died with signal {} while running case {}; stderr: {}", sig, case, tail(&err)),
                            json!({"property": a.id, "seed": a.seed, "case": case, "tier": a.tier.name(), "signal": sig}),
                        );
                    } else if !last_phase.is_empty() && last_phase != "done" {
                        merged.violation(
                            format!("abort:signal{}:{}", sig, last_phase.split(" n=").next().unwrap_or("")),
                            format!("child process died with signal {} during: {}", sig, last_phase),
                            json!({"property": a.id, "phase": last_phase, "signal": sig}),
                        );
                    } else {
                        harness_errors.push(format!("shard {} died with signal {} outside an announced phase; stderr: {}", shard, sig, tail(&err)));
                    }
                } else if st.code() == Some(97) {
                    let task = std::fs::read_to_string(tmp.join(format!("shard-{}.hang", shard))).unwrap_or_default();
                    let cur_case = std::fs::read(tmp.join(format!("shard-{}.cur", shard))).ok().filter(|b| b.len() == 8).map(|b| u64::from_le_bytes(b[..8].try_into().unwrap()));
                    merged.violation(
                        format!("poll-never-returns:{}", task.trim_end_matches(char::is_numeric)),
                        format!("a single poll of task / call `{}` did not return within 20 s (busy loop inside the subject, it never yields or returns) while running case {:?}", task, cur_case),
                        json!({"property": a.id, "seed": a.seed, "case": cur_case, "tier": a.tier.name(), "task": task}),
                    );
                } else {
                    harness_errors.push(format!("shard {} exited with {:?}; stderr: {}", shard, st.code(), tail(&err)));
                }
            }
            (Err(e), _) => harness_errors.push(format!("shard {}: wait failed: {}", shard, e)),
        }
    }
    // optional: merge sanitizer-slice outcomes produced by the shell driver
    for p in &a.merge_from {
        match std::fs::read(p) {
            Ok(b) => {
                let j: J = serde_json::from_slice(&b).unwrap_or(J::Null);
                merged.merge_json(&j);
            }
            Err(e) => merged.inconclusive(format!("sanitizer slice outcome {} missing: {}", p.display(), e)),
        }
    }
    let _ = std::fs::remove_dir_all(&tmp);
    merged.distinct = distinct;

    finish(check, &a, &root, merged, harness_errors, t0.elapsed().as_secs_f64());
}

fn tail(s: &str) -> String {
    let t: Vec<&str> = s.lines().rev().take(6).collect();
    t.into_iter().rev().collect::<Vec<_>>().join(" | ")
}

fn finish(check: &dyn Check, a: &Args, root: &Path, merged: Outcome, mut harness_errors: Vec<String>, wall: f64) -> ! {
    let known = load_known(root);
    let empty = Vec::new();
    let findings = known["findings"].as_array().unwrap_or(&empty);
    let mut known_hits: Vec<(String, String)> = Vec::new();
    let mut new_violations = Vec::new();
    for v in &merged.violations {
        let hit = findings.iter().find(|f| {
            f["property"].as_str() == Some(check.id()) && f["signature"].as_str() == Some(v.signature.as_str())
        });
        match hit {
            Some(f) => {
                let what = f["what"].as_str().unwrap_or("").to_string();
                if !known_hits.iter().any(|(s, _)| *s == v.signature) {
                    known_hits.push((v.signature.clone(), what));
                }
            }
            None => new_violations.push(v.clone()),
        }
    }

    let gates = check.gates(a.tier, &merged);
    for g in &gates {
        harness_errors.push(format!("coverage gate unmet: {}", g));
    }
    if merged.evaluations == 0 {
        harness_errors.push("no evaluations were performed".into());
    }

    // replay files
    let replay_dir = root.join("replays");
    let _ = std::fs::create_dir_all(&replay_dir);
    let mut violation_lines = Vec::new();
    for (i, v) in new_violations.iter().enumerate() {
        if i >= 5 {
            break;
        }
        let path = replay_dir.join(format!("{}-{}-{}.json", check.id(), a.seed, i));
        let body = json!({"property": check.id(), "signature": v.signature, "detail": v.detail,
                          "tier": a.tier.name(), "seed": a.seed, "replay": v.replay});
        let _ = std::fs::write(&path, serde_json::to_vec_pretty(&body).unwrap());
        violation_lines.push(format!("VIOLATION property={} replay={}", check.id(), path.display()));
    }

    // evidence
    let mut coverage = serde_json::Map::new();
    coverage.insert("evaluations".into(), json!(merged.evaluations));
    coverage.insert("distinct_nontrivial".into(), json!(merged.distinct.len()));
    coverage.insert("rule".into(), json!(check.rule()));
    coverage.insert("samples".into(), json!(merged.samples));
    coverage.insert("counters".into(), json!(merged.counters));
    coverage.insert("maxima".into(), json!(merged.maxima));
    let sets: serde_json::Map<String, J> = merged
        .sets
        .iter()
        .map(|(k, v)| (k.clone(), json!({"count": v.len(), "items": v.iter().take(80).cloned().collect::<Vec<_>>()})))
        .collect();
    coverage.insert("observed_sets".into(), J::Object(sets));
    coverage.insert("inconclusive".into(), json!(merged.inconclusive));
    coverage.insert("harness_errors".into(), json!(harness_errors));
    coverage.insert("known_findings_hit".into(), json!(known_hits.iter().map(|(s, _)| s.clone()).collect::<Vec<_>>()));
    coverage.insert(
        "violation_signatures".into(),
        json!(new_violations.iter().map(|v| v.signature.clone()).collect::<HashSet<_>>().into_iter().collect::<Vec<_>>()),
    );
    let verdict = if !new_violations.is_empty() {
        "violated"
    } else if !harness_errors.is_empty() || !merged.inconclusive.is_empty() {
        "inconclusive"
    } else {
        "held on what was observed"
    };
    coverage.insert("verdict".into(), json!(verdict));
    coverage.insert("mode".into(), json!(if a.mode.is_empty() { "native" } else { a.mode.as_str() }));
    let evidence = json!({
        "property_id": check.id(),
        "tier": a.tier.name(),
        "seed": a.seed,
        "level": check.level(),
        "coverage": J::Object(coverage),
        "assumptions": check.assumptions(),
        "wall_s": wall,
        "violations": new_violations.len(),
    });
    if let Some(p) = &a.out_json {
        // sanitizer slice: write the merged outcome for the outer run instead of evidence
        let mut m = merged;
        m.samples.clear();
        let _ = std::fs::write(p, serde_json::to_vec(&m.to_json()).unwrap());
    } else {
        let ev_dir = root.join("evidence");
        let _ = std::fs::create_dir_all(&ev_dir);
        let ev_path = ev_dir.join(format!("{}.json", check.id()));
        if let Err(e) = std::fs::write(&ev_path, serde_json::to_vec_pretty(&evidence).unwrap()) {
            eprintln!("cannot write evidence: {}", e);
            std::process::exit(2);
        }
    }

    let so = std::io::stdout();
    let mut so = so.lock();
    let _ = writeln!(
        so,
        "{} tier={} seed={} evaluations={} distinct_nontrivial={} wall={:.1}s verdict={}",
        check.id(),
        a.tier.name(),
        a.seed,
        merged_eval(&evidence),
        evidence["coverage"]["distinct_nontrivial"],
        wall,
        verdict
    );
    for (sig, what) in &known_hits {
        let _ = writeln!(so, "KNOWN-FINDING: property={} {} [{}]", check.id(), what, sig);
    }
    for e in &harness_errors {
        let _ = writeln!(so, "HARNESS-ERROR: {}", e);
    }
    if let Some(inc) = evidence["coverage"]["inconclusive"].as_array() {
        for e in inc {
            let _ = writeln!(so, "INCONCLUSIVE: {}", e.as_str().unwrap_or(""));
        }
    }
    if !new_violations.is_empty() {
        for v in new_violations.iter().take(5) {
            let _ = writeln!(so, "  violation [{}]: {}", v.signature, v.detail.chars().take(600).collect::<String>());
        }
        for l in &violation_lines {
            let _ = writeln!(so, "{}", l);
        }
        std::process::exit(1);
    }
    if !harness_errors.is_empty() {
        std::process::exit(2);
    }
    std::process::exit(0);
}

fn merged_eval(e: &J) -> u64 {
    e["coverage"]["evaluations"].as_u64().unwrap_or(0)
}

fn replay(check: &dyn Check, a: &Args, path: &Path) -> ! {
    let b = std::fs::read(path).unwrap_or_else(|e| {
        eprintln!("cannot read {}: {}", path.display(), e);
        std::process::exit(2)
    });
    let j: J = serde_json::from_slice(&b).unwrap_or(J::Null);
    let seed = j["seed"].as_u64().unwrap_or(a.seed);
    let tier = if j["tier"].as_str() == Some("thorough") { Tier::Thorough } else { Tier::Quick };
    let ctx = Ctx {
        id: a.id.clone(),
        tier,
        seed,
        shard: 0,
        nshards: 1,
        scale: 1.0,
        mode: a.mode.clone(),
    };
    let mut out = Outcome::default();
    match j["replay"]["case"].as_u64() {
        Some(idx) => check.run_case(&ctx, idx, &mut out),
        None => check.once(&ctx, &mut out),
    }
    println!("replay of {}: evaluations={} violations={}", path.display(), out.evaluations, out.violations.len());
    for v in &out.violations {
        println!("  [{}] {}", v.signature, v.detail);
    }
    if out.violations.is_empty() {
        std::process::exit(0);
    }
    println!("VIOLATION property={} replay={}", check.id(), path.display());
    std::process::exit(1);
}
