//! Reference value tree and an independent reference encoder / decoder / skipper / kind
//! scanner for the aldrin value wire format, written from the wire layout. Nothing in this file
//! calls into aldrin's (de)serializer; conversions to and from `aldrin_core::Value` at the
//! bottom only build / walk the public enum.

use crate::prng::Rng;
use std::collections::{HashMap, HashSet};

pub const MAX_DEPTH: usize = 32;

#[derive(Clone, Copy, Debug, PartialEq, Eq, PartialOrd, Ord, Hash)]
pub enum KeyKind {
    U8,
    I8,
    U16,
    I16,
    U32,
    I32,
    U64,
    I64,
    Str,
    Uuid,
}

pub const KEY_KINDS: [KeyKind; 10] = [
    KeyKind::U8,
    KeyKind::I8,
    KeyKind::U16,
    KeyKind::I16,
    KeyKind::U32,
    KeyKind::I32,
    KeyKind::U64,
    KeyKind::I64,
    KeyKind::Str,
    KeyKind::Uuid,
];

impl KeyKind {
    pub fn index(self) -> u8 {
        KEY_KINDS.iter().position(|k| *k == self).unwrap() as u8
    }
    pub fn from_index(i: u8) -> Self {
        KEY_KINDS[i as usize]
    }
}

#[derive(Clone, Debug, PartialEq, Eq, PartialOrd, Ord, Hash)]
pub enum Key {
    U8(u8),
    I8(i8),
    U16(u16),
    I16(i16),
    U32(u32),
    I32(i32),
    U64(u64),
    I64(i64),
    /// raw bytes; valid UTF-8 for generated values, arbitrary for reference-decoded (skip) ones
    Str(Vec<u8>),
    Uuid([u8; 16]),
}

#[derive(Clone, Debug, PartialEq, Eq, PartialOrd, Ord, Hash)]
pub enum RV {
    None,
    Some(Box<RV>),
    Bool(bool),
    U8(u8),
    I8(i8),
    U16(u16),
    I16(i16),
    U32(u32),
    I32(i32),
    U64(u64),
    I64(i64),
    F32(u32),
    F64(u64),
    Str(Vec<u8>),
    Uuid([u8; 16]),
    ObjectId([u8; 32]),
    ServiceId([u8; 64]),
    Vec(Vec<RV>),
    Bytes(Vec<u8>),
    Map(KeyKind, Vec<(Key, RV)>),
    Set(KeyKind, Vec<Key>),
    Struct(Vec<(u32, RV)>),
    Enum(u32, Box<RV>),
    Sender([u8; 16]),
    Receiver([u8; 16]),
}

// Wire kind bytes (from the protocol's value kind table).
pub mod k {
    pub const NONE: u8 = 0;
    pub const SOME: u8 = 1;
    pub const BOOL: u8 = 2;
    pub const U8: u8 = 3;
    pub const I8: u8 = 4;
    pub const U16: u8 = 5;
    pub const I16: u8 = 6;
    pub const U32: u8 = 7;
    pub const I32: u8 = 8;
    pub const U64: u8 = 9;
    pub const I64: u8 = 10;
    pub const F32: u8 = 11;
    pub const F64: u8 = 12;
    pub const STRING: u8 = 13;
    pub const UUID: u8 = 14;
    pub const OBJECT_ID: u8 = 15;
    pub const SERVICE_ID: u8 = 16;
    pub const VEC1: u8 = 17;
    pub const BYTES1: u8 = 18;
    pub const MAP1_BASE: u8 = 19; // + key kind index
    pub const SET1_BASE: u8 = 29;
    pub const STRUCT1: u8 = 39;
    pub const ENUM: u8 = 40;
    pub const SENDER: u8 = 41;
    pub const RECEIVER: u8 = 42;
    pub const VEC2: u8 = 43;
    pub const BYTES2: u8 = 44;
    pub const MAP2_BASE: u8 = 45;
    pub const SET2_BASE: u8 = 55;
    pub const STRUCT2: u8 = 65;
    pub const MAX: u8 = 65;
}

/// True for the container kinds introduced with protocol 1.20.
pub fn is_v2_kind(kind: u8) -> bool {
    (k::VEC2..=k::STRUCT2).contains(&kind)
}

/// The 43 kinds of the dynamic value enum, as an index for coverage accounting.
pub fn rv_kind_index(v: &RV) -> usize {
    match v {
        RV::None => 0,
        RV::Some(_) => 1,
        RV::Bool(_) => 2,
        RV::U8(_) => 3,
        RV::I8(_) => 4,
        RV::U16(_) => 5,
        RV::I16(_) => 6,
        RV::U32(_) => 7,
        RV::I32(_) => 8,
        RV::U64(_) => 9,
        RV::I64(_) => 10,
        RV::F32(_) => 11,
        RV::F64(_) => 12,
        RV::Str(_) => 13,
        RV::Uuid(_) => 14,
        RV::ObjectId(_) => 15,
        RV::ServiceId(_) => 16,
        RV::Vec(_) => 17,
        RV::Bytes(_) => 18,
        RV::Map(kk, _) => 19 + kk.index() as usize,
        RV::Set(kk, _) => 29 + kk.index() as usize,
        RV::Struct(_) => 39,
        RV::Enum(..) => 40,
        RV::Sender(_) => 41,
        RV::Receiver(_) => 42,
    }
}
pub const NUM_RV_KINDS: usize = 43;

impl RV {
    /// Nesting depth as the protocol counts it: a leaf is 1; Some/Enum add one to their payload;
    /// vec/map/struct are 1 + deepest element (1 when empty); sets and bytes are leaves.
    pub fn depth(&self) -> usize {
        match self {
            RV::Some(v) | RV::Enum(_, v) => 1 + v.depth(),
            RV::Vec(xs) => 1 + xs.iter().map(RV::depth).max().unwrap_or(0),
            RV::Map(_, xs) => 1 + xs.iter().map(|(_, v)| v.depth()).max().unwrap_or(0),
            RV::Struct(xs) => 1 + xs.iter().map(|(_, v)| v.depth()).max().unwrap_or(0),
            _ => 1,
        }
    }

    /// Canonical form for comparison "maps/sets as sets": duplicate keys resolved last-wins (what
    /// inserting into a map in wire order yields), then sorted by key.
    pub fn normalize(&self) -> RV {
        match self {
            RV::Some(v) => RV::Some(Box::new(v.normalize())),
            RV::Enum(id, v) => RV::Enum(*id, Box::new(v.normalize())),
            RV::Vec(xs) => RV::Vec(xs.iter().map(RV::normalize).collect()),
            RV::Map(kk, xs) => {
                let mut out: Vec<(Key, RV)> = Vec::new();
                for (key, v) in xs {
                    let v = v.normalize();
                    if let Some(slot) = out.iter_mut().find(|(k2, _)| k2 == key) {
                        slot.1 = v;
                    } else {
                        out.push((key.clone(), v));
                    }
                }
                out.sort_by(|a, b| a.0.cmp(&b.0));
                RV::Map(*kk, out)
            }
            RV::Set(kk, xs) => {
                let mut out = xs.clone();
                out.sort();
                out.dedup();
                RV::Set(*kk, out)
            }
            RV::Struct(xs) => {
                let mut out: Vec<(u32, RV)> = Vec::new();
                for (id, v) in xs {
                    let v = v.normalize();
                    if let Some(slot) = out.iter_mut().find(|(i2, _)| i2 == id) {
                        slot.1 = v;
                    } else {
                        out.push((*id, v));
                    }
                }
                out.sort_by_key(|x| x.0);
                RV::Struct(out)
            }
            other => other.clone(),
        }
    }

    /// All strings (values and keys) are valid UTF-8.
    pub fn utf8_ok(&self) -> bool {
        fn key_ok(k: &Key) -> bool {
            match k {
                Key::Str(b) => std::str::from_utf8(b).is_ok(),
                _ => true,
            }
        }
        match self {
            RV::Str(b) => std::str::from_utf8(b).is_ok(),
            RV::Some(v) | RV::Enum(_, v) => v.utf8_ok(),
            RV::Vec(xs) => xs.iter().all(RV::utf8_ok),
            RV::Map(_, xs) => xs.iter().all(|(k, v)| key_ok(k) && v.utf8_ok()),
            RV::Set(_, xs) => xs.iter().all(key_ok),
            RV::Struct(xs) => xs.iter().all(|(_, v)| v.utf8_ok()),
            _ => true,
        }
    }

    pub fn visit<F: FnMut(&RV, usize)>(&self, f: &mut F, level: usize) {
        f(self, level);
        match self {
            RV::Some(v) | RV::Enum(_, v) => v.visit(f, level + 1),
            RV::Vec(xs) => xs.iter().for_each(|v| v.visit(f, level + 1)),
            RV::Map(_, xs) => xs.iter().for_each(|(_, v)| v.visit(f, level + 1)),
            RV::Struct(xs) => xs.iter().for_each(|(_, v)| v.visit(f, level + 1)),
            _ => {}
        }
    }

    /// Short human-readable rendering for samples (truncated).
    pub fn render(&self, budget: usize) -> String {
        let mut s = format!("{:?}", self);
        if s.len() > budget {
            s.truncate(budget);
            s.push('…');
        }
        s
    }
}

// ---------------------------------------------------------------------------------------------
// Reference encoder
// ---------------------------------------------------------------------------------------------

#[derive(Clone, Copy, Debug, PartialEq, Eq)]
pub enum Epoch {
    /// legacy: length-prefixed containers (kinds 17..39)
    V1,
    /// 1.20: terminated containers (kinds 43..65)
    V2,
}

/// How the reference encoder lays out a value.
pub struct EncStyle<'a> {
    /// chooses the epoch of every container
    pub epoch: EpochChoice<'a>,
    /// when set, varints may use non-minimal widths and Bytes2 is split in several chunks
    pub exotic: Option<&'a mut Rng>,
}

pub enum EpochChoice<'a> {
    All(Epoch),
    Mixed(&'a mut Rng),
}

impl EpochChoice<'_> {
    fn next(&mut self) -> Epoch {
        match self {
            EpochChoice::All(e) => *e,
            EpochChoice::Mixed(r) => {
                if r.bool() {
                    Epoch::V1
                } else {
                    Epoch::V2
                }
            }
        }
    }
}

pub fn put_varint(out: &mut Vec<u8>, n: u64, width: usize, exotic: &mut Option<&mut Rng>) {
    // width = 2, 4 or 8 (bytes of the integer type). First byte f <= 255-width is the value
    // itself; otherwise f = 255 - width + nbytes announces nbytes little-endian bytes.
    let le = n.to_le_bytes();
    let mut nbytes = 0usize;
    for i in 0..width {
        if le[i] != 0 {
            nbytes = i + 1;
        }
    }
    let small_max = 255 - width as u64;
    let mut inline = n <= small_max;
    if let Some(r) = exotic {
        if r.chance(1, 4) {
            // any width >= minimal is decodable
            inline = false;
            nbytes = r.range(nbytes.max(1), width);
        }
    }
    if inline {
        out.push(n as u8);
    } else {
        let nbytes = nbytes.max(1);
        out.push((255 - width + nbytes) as u8);
        out.extend_from_slice(&le[..nbytes]);
    }
}

fn zz16(n: i16) -> u64 {
    (((n >> 15) as u16) ^ ((n << 1) as u16)) as u64
}
fn zz32(n: i32) -> u64 {
    (((n >> 31) as u32) ^ ((n << 1) as u32)) as u64
}
fn zz64(n: i64) -> u64 {
    ((n >> 63) as u64) ^ ((n << 1) as u64)
}

fn put_key(out: &mut Vec<u8>, key: &Key, ex: &mut Option<&mut Rng>) {
    match key {
        Key::U8(v) => out.push(*v),
        Key::I8(v) => out.push(*v as u8),
        Key::U16(v) => put_varint(out, *v as u64, 2, ex),
        Key::I16(v) => put_varint(out, zz16(*v), 2, ex),
        Key::U32(v) => put_varint(out, *v as u64, 4, ex),
        Key::I32(v) => put_varint(out, zz32(*v), 4, ex),
        Key::U64(v) => put_varint(out, *v, 8, ex),
        Key::I64(v) => put_varint(out, zz64(*v), 8, ex),
        Key::Str(b) => {
            put_varint(out, b.len() as u64, 4, ex);
            out.extend_from_slice(b);
        }
        Key::Uuid(b) => out.extend_from_slice(b),
    }
}

pub fn encode(v: &RV, style: &mut EncStyle, out: &mut Vec<u8>) {
    match v {
        RV::None => out.push(k::NONE),
        RV::Some(x) => {
            out.push(k::SOME);
            encode(x, style, out);
        }
        RV::Bool(b) => {
            out.push(k::BOOL);
            out.push(*b as u8);
        }
        RV::U8(x) => {
            out.push(k::U8);
            out.push(*x);
        }
        RV::I8(x) => {
            out.push(k::I8);
            out.push(*x as u8);
        }
        RV::U16(x) => {
            out.push(k::U16);
            put_varint(out, *x as u64, 2, &mut style.exotic);
        }
        RV::I16(x) => {
            out.push(k::I16);
            put_varint(out, zz16(*x), 2, &mut style.exotic);
        }
        RV::U32(x) => {
            out.push(k::U32);
            put_varint(out, *x as u64, 4, &mut style.exotic);
        }
        RV::I32(x) => {
            out.push(k::I32);
            put_varint(out, zz32(*x), 4, &mut style.exotic);
        }
        RV::U64(x) => {
            out.push(k::U64);
            put_varint(out, *x, 8, &mut style.exotic);
        }
        RV::I64(x) => {
            out.push(k::I64);
            put_varint(out, zz64(*x), 8, &mut style.exotic);
        }
        RV::F32(bits) => {
            out.push(k::F32);
            out.extend_from_slice(&bits.to_le_bytes());
        }
        RV::F64(bits) => {
            out.push(k::F64);
            out.extend_from_slice(&bits.to_le_bytes());
        }
        RV::Str(b) => {
            out.push(k::STRING);
            put_varint(out, b.len() as u64, 4, &mut style.exotic);
            out.extend_from_slice(b);
        }
        RV::Uuid(b) => {
            out.push(k::UUID);
            out.extend_from_slice(b);
        }
        RV::ObjectId(b) => {
            out.push(k::OBJECT_ID);
            out.extend_from_slice(b);
        }
        RV::ServiceId(b) => {
            out.push(k::SERVICE_ID);
            out.extend_from_slice(b);
        }
        RV::Sender(b) => {
            out.push(k::SENDER);
            out.extend_from_slice(b);
        }
        RV::Receiver(b) => {
            out.push(k::RECEIVER);
            out.extend_from_slice(b);
        }
        RV::Enum(id, x) => {
            out.push(k::ENUM);
            put_varint(out, *id as u64, 4, &mut style.exotic);
            encode(x, style, out);
        }
        RV::Vec(xs) => match style.epoch.next() {
            Epoch::V1 => {
                out.push(k::VEC1);
                put_varint(out, xs.len() as u64, 4, &mut style.exotic);
                for x in xs {
                    encode(x, style, out);
                }
            }
            Epoch::V2 => {
                out.push(k::VEC2);
                for x in xs {
                    out.push(k::SOME);
                    encode(x, style, out);
                }
                out.push(k::NONE);
            }
        },
        RV::Bytes(b) => match style.epoch.next() {
            Epoch::V1 => {
                out.push(k::BYTES1);
                put_varint(out, b.len() as u64, 4, &mut style.exotic);
                out.extend_from_slice(b);
            }
            Epoch::V2 => {
                out.push(k::BYTES2);
                let mut rest: &[u8] = b;
                while !rest.is_empty() {
                    let mut n = rest.len();
                    if let Some(r) = &mut style.exotic {
                        if r.bool() {
                            n = r.range(1, rest.len());
                        }
                    }
                    put_varint(out, n as u64, 4, &mut style.exotic);
                    out.extend_from_slice(&rest[..n]);
                    rest = &rest[n..];
                }
                put_varint(out, 0, 4, &mut None);
            }
        },
        RV::Map(kk, xs) => match style.epoch.next() {
            Epoch::V1 => {
                out.push(k::MAP1_BASE + kk.index());
                put_varint(out, xs.len() as u64, 4, &mut style.exotic);
                for (key, x) in xs {
                    put_key(out, key, &mut style.exotic);
                    encode(x, style, out);
                }
            }
            Epoch::V2 => {
                out.push(k::MAP2_BASE + kk.index());
                for (key, x) in xs {
                    out.push(k::SOME);
                    put_key(out, key, &mut style.exotic);
                    encode(x, style, out);
                }
                out.push(k::NONE);
            }
        },
        RV::Set(kk, xs) => match style.epoch.next() {
            Epoch::V1 => {
                out.push(k::SET1_BASE + kk.index());
                put_varint(out, xs.len() as u64, 4, &mut style.exotic);
                for key in xs {
                    put_key(out, key, &mut style.exotic);
                }
            }
            Epoch::V2 => {
                out.push(k::SET2_BASE + kk.index());
                for key in xs {
                    out.push(k::SOME);
                    put_key(out, key, &mut style.exotic);
                }
                out.push(k::NONE);
            }
        },
        RV::Struct(xs) => match style.epoch.next() {
            Epoch::V1 => {
                out.push(k::STRUCT1);
                put_varint(out, xs.len() as u64, 4, &mut style.exotic);
                for (id, x) in xs {
                    put_varint(out, *id as u64, 4, &mut style.exotic);
                    encode(x, style, out);
                }
            }
            Epoch::V2 => {
                out.push(k::STRUCT2);
                for (id, x) in xs {
                    out.push(k::SOME);
                    put_varint(out, *id as u64, 4, &mut style.exotic);
                    encode(x, style, out);
                }
                out.push(k::NONE);
            }
        },
    }
}

pub fn encode_epoch(v: &RV, e: Epoch) -> Vec<u8> {
    let mut out = Vec::new();
    encode(
        v,
        &mut EncStyle {
            epoch: EpochChoice::All(e),
            exotic: None,
        },
        &mut out,
    );
    out
}

/// One epoch throughout, with legal but unusual forms (segmented byte strings, wide varints).
pub fn encode_epoch_exotic(v: &RV, e: Epoch, rng: &mut Rng) -> Vec<u8> {
    let mut out = Vec::new();
    let mut r2 = Rng::new(rng.next_u64());
    encode(
        v,
        &mut EncStyle {
            epoch: EpochChoice::All(e),
            exotic: Some(&mut r2),
        },
        &mut out,
    );
    out
}

pub fn encode_mixed(v: &RV, rng: &mut Rng, exotic: bool) -> Vec<u8> {
    let mut out = Vec::new();
    let mut r2 = Rng::new(rng.next_u64());
    encode(
        v,
        &mut EncStyle {
            epoch: EpochChoice::Mixed(rng),
            exotic: if exotic { Some(&mut r2) } else { None },
        },
        &mut out,
    );
    out
}

// ---------------------------------------------------------------------------------------------
// Reference decoder / skipper
// ---------------------------------------------------------------------------------------------

#[derive(Clone, Copy, Debug, PartialEq, Eq)]
pub enum RefErr {
    /// ran out of bytes
    Eoi,
    /// unknown kind byte, bad element marker
    Invalid,
    /// nesting deeper than 32
    TooDeep,
}

pub struct Rd<'a> {
    pub buf: &'a [u8],
    pub pos: usize,
}

impl<'a> Rd<'a> {
    pub fn new(buf: &'a [u8]) -> Self {
        Self { buf, pos: 0 }
    }
    fn u8(&mut self) -> Result<u8, RefErr> {
        let b = *self.buf.get(self.pos).ok_or(RefErr::Eoi)?;
        self.pos += 1;
        Ok(b)
    }
    fn take(&mut self, n: usize) -> Result<&'a [u8], RefErr> {
        if self.buf.len() - self.pos < n {
            return Err(RefErr::Eoi);
        }
        let s = &self.buf[self.pos..self.pos + n];
        self.pos += n;
        Ok(s)
    }
    fn varint(&mut self, width: usize) -> Result<u64, RefErr> {
        let f = self.u8()? as usize;
        if f <= 255 - width {
            Ok(f as u64)
        } else {
            let n = f + width - 255;
            let s = self.take(n)?;
            let mut le = [0u8; 8];
            le[..n].copy_from_slice(s);
            Ok(u64::from_le_bytes(le))
        }
    }
}

fn unzz(n: u64) -> i64 {
    ((n >> 1) as i64) ^ -((n & 1) as i64)
}

fn get_key(rd: &mut Rd, kk: KeyKind) -> Result<Key, RefErr> {
    Ok(match kk {
        KeyKind::U8 => Key::U8(rd.u8()?),
        KeyKind::I8 => Key::I8(rd.u8()? as i8),
        KeyKind::U16 => Key::U16(rd.varint(2)? as u16),
        KeyKind::I16 => Key::I16(unzz(rd.varint(2)?) as i16),
        KeyKind::U32 => Key::U32(rd.varint(4)? as u32),
        KeyKind::I32 => Key::I32(unzz(rd.varint(4)?) as i32),
        KeyKind::U64 => Key::U64(rd.varint(8)?),
        KeyKind::I64 => Key::I64(unzz(rd.varint(8)?)),
        KeyKind::Str => {
            let n = rd.varint(4)? as usize;
            Key::Str(rd.take(n)?.to_vec())
        }
        KeyKind::Uuid => Key::Uuid(rd.take(16)?.try_into().unwrap()),
    })
}

/// Decodes one value at nesting level `level` (1 for a top-level value). Does not validate
/// UTF-8 (strings are kept as bytes): this is the "skip" acceptance; full decoding acceptance is
/// this plus `utf8_ok()`.
pub fn decode_at(rd: &mut Rd, level: usize) -> Result<RV, RefErr> {
    if level > MAX_DEPTH {
        return Err(RefErr::TooDeep);
    }
    let kind = rd.u8()?;
    if kind > k::MAX {
        return Err(RefErr::Invalid);
    }
    Ok(match kind {
        k::NONE => RV::None,
        k::SOME => RV::Some(Box::new(decode_at(rd, level + 1)?)),
        k::BOOL => RV::Bool(rd.u8()? != 0),
        k::U8 => RV::U8(rd.u8()?),
        k::I8 => RV::I8(rd.u8()? as i8),
        k::U16 => RV::U16(rd.varint(2)? as u16),
        k::I16 => RV::I16(unzz(rd.varint(2)?) as i16),
        k::U32 => RV::U32(rd.varint(4)? as u32),
        k::I32 => RV::I32(unzz(rd.varint(4)?) as i32),
        k::U64 => RV::U64(rd.varint(8)?),
        k::I64 => RV::I64(unzz(rd.varint(8)?)),
        k::F32 => RV::F32(u32::from_le_bytes(rd.take(4)?.try_into().unwrap())),
        k::F64 => RV::F64(u64::from_le_bytes(rd.take(8)?.try_into().unwrap())),
        k::STRING => {
            let n = rd.varint(4)? as usize;
            RV::Str(rd.take(n)?.to_vec())
        }
        k::UUID => RV::Uuid(rd.take(16)?.try_into().unwrap()),
        k::OBJECT_ID => RV::ObjectId(rd.take(32)?.try_into().unwrap()),
        k::SERVICE_ID => RV::ServiceId(rd.take(64)?.try_into().unwrap()),
        k::SENDER => RV::Sender(rd.take(16)?.try_into().unwrap()),
        k::RECEIVER => RV::Receiver(rd.take(16)?.try_into().unwrap()),
        k::ENUM => {
            let id = rd.varint(4)? as u32;
            RV::Enum(id, Box::new(decode_at(rd, level + 1)?))
        }
        k::VEC1 => {
            let n = rd.varint(4)?;
            let mut xs = Vec::new();
            for _ in 0..n {
                xs.push(decode_at(rd, level + 1)?);
            }
            RV::Vec(xs)
        }
        k::VEC2 => {
            let mut xs = Vec::new();
            loop {
                match rd.u8()? {
                    k::NONE => break,
                    k::SOME => xs.push(decode_at(rd, level + 1)?),
                    _ => return Err(RefErr::Invalid),
                }
            }
            RV::Vec(xs)
        }
        k::BYTES1 => {
            let n = rd.varint(4)? as usize;
            RV::Bytes(rd.take(n)?.to_vec())
        }
        k::BYTES2 => {
            let mut b = Vec::new();
            loop {
                let n = rd.varint(4)? as usize;
                if n == 0 {
                    break;
                }
                b.extend_from_slice(rd.take(n)?);
            }
            RV::Bytes(b)
        }
        k::STRUCT1 => {
            let n = rd.varint(4)?;
            let mut xs = Vec::new();
            for _ in 0..n {
                let id = rd.varint(4)? as u32;
                xs.push((id, decode_at(rd, level + 1)?));
            }
            RV::Struct(xs)
        }
        k::STRUCT2 => {
            let mut xs = Vec::new();
            loop {
                match rd.u8()? {
                    k::NONE => break,
                    k::SOME => {
                        let id = rd.varint(4)? as u32;
                        xs.push((id, decode_at(rd, level + 1)?));
                    }
                    _ => return Err(RefErr::Invalid),
                }
            }
            RV::Struct(xs)
        }
        kind if (k::MAP1_BASE..k::SET1_BASE).contains(&kind) => {
            let kk = KeyKind::from_index(kind - k::MAP1_BASE);
            let n = rd.varint(4)?;
            let mut xs = Vec::new();
            for _ in 0..n {
                let key = get_key(rd, kk)?;
                xs.push((key, decode_at(rd, level + 1)?));
            }
            RV::Map(kk, xs)
        }
        kind if (k::SET1_BASE..k::STRUCT1).contains(&kind) => {
            let kk = KeyKind::from_index(kind - k::SET1_BASE);
            let n = rd.varint(4)?;
            let mut xs = Vec::new();
            for _ in 0..n {
                xs.push(get_key(rd, kk)?);
            }
            RV::Set(kk, xs)
        }
        kind if (k::MAP2_BASE..k::SET2_BASE).contains(&kind) => {
            let kk = KeyKind::from_index(kind - k::MAP2_BASE);
            let mut xs = Vec::new();
            loop {
                match rd.u8()? {
                    k::NONE => break,
                    k::SOME => {
                        let key = get_key(rd, kk)?;
                        xs.push((key, decode_at(rd, level + 1)?));
                    }
                    _ => return Err(RefErr::Invalid),
                }
            }
            RV::Map(kk, xs)
        }
        kind if (k::SET2_BASE..k::STRUCT2).contains(&kind) => {
            let kk = KeyKind::from_index(kind - k::SET2_BASE);
            let mut xs = Vec::new();
            loop {
                match rd.u8()? {
                    k::NONE => break,
                    k::SOME => xs.push(get_key(rd, kk)?),
                    _ => return Err(RefErr::Invalid),
                }
            }
            RV::Set(kk, xs)
        }
        _ => return Err(RefErr::Invalid),
    })
}

/// Reference "skip": Ok(consumed) with the decoded tree (strings as bytes).
pub fn ref_skip(buf: &[u8]) -> Result<(RV, usize), RefErr> {
    let mut rd = Rd::new(buf);
    let v = decode_at(&mut rd, 1)?;
    Ok((v, rd.pos))
}

/// Guard against hostile length fields: `decode_at` loops `n` times for length-prefixed
/// containers but every iteration consumes at least one byte or fails, so it terminates within
/// `buf.len()` iterations; only Vec pushes of zero-size... none exist. (Set1 of n elements with 0
/// remaining bytes fails at the first key.)

/// Collect every kind byte at a *value position* of a well-formed encoding (the positions a
/// decoder interprets as kinds), by re-walking the bytes.
pub fn scan_kinds(buf: &[u8]) -> Result<Vec<u8>, RefErr> {
    fn walk(rd: &mut Rd, level: usize, out: &mut Vec<u8>) -> Result<(), RefErr> {
        if level > MAX_DEPTH {
            return Err(RefErr::TooDeep);
        }
        let start = rd.pos;
        let kind = rd.u8()?;
        if kind > k::MAX {
            return Err(RefErr::Invalid);
        }
        out.push(kind);
        // re-use decode for leaves by rewinding
        match kind {
            k::SOME => walk(rd, level + 1, out),
            k::ENUM => {
                rd.varint(4)?;
                walk(rd, level + 1, out)
            }
            k::VEC1 => {
                let n = rd.varint(4)?;
                for _ in 0..n {
                    walk(rd, level + 1, out)?;
                }
                Ok(())
            }
            k::VEC2 => loop {
                match rd.u8()? {
                    k::NONE => return Ok(()),
                    k::SOME => walk(rd, level + 1, out)?,
                    _ => return Err(RefErr::Invalid),
                }
            },
            k::STRUCT1 => {
                let n = rd.varint(4)?;
                for _ in 0..n {
                    rd.varint(4)?;
                    walk(rd, level + 1, out)?;
                }
                Ok(())
            }
            k::STRUCT2 => loop {
                match rd.u8()? {
                    k::NONE => return Ok(()),
                    k::SOME => {
                        rd.varint(4)?;
                        walk(rd, level + 1, out)?;
                    }
                    _ => return Err(RefErr::Invalid),
                }
            },
            kind if (k::MAP1_BASE..k::SET1_BASE).contains(&kind) => {
                let kk = KeyKind::from_index(kind - k::MAP1_BASE);
                let n = rd.varint(4)?;
                for _ in 0..n {
                    get_key(rd, kk)?;
                    walk(rd, level + 1, out)?;
                }
                Ok(())
            }
            kind if (k::MAP2_BASE..k::SET2_BASE).contains(&kind) => {
                let kk = KeyKind::from_index(kind - k::MAP2_BASE);
                loop {
                    match rd.u8()? {
                        k::NONE => return Ok(()),
                        k::SOME => {
                            get_key(rd, kk)?;
                            walk(rd, level + 1, out)?;
                        }
                        _ => return Err(RefErr::Invalid),
                    }
                }
            }
            _ => {
                // leaf or set/bytes: decode from the start of this value to advance
                rd.pos = start;
                decode_at(rd, level)?;
                Ok(())
            }
        }
    }
    let mut rd = Rd::new(buf);
    let mut out = Vec::new();
    walk(&mut rd, 1, &mut out)?;
    Ok(out)
}

// ---------------------------------------------------------------------------------------------
// Generator
// ---------------------------------------------------------------------------------------------

const U16_EDGES: [u16; 10] = [0, 1, 252, 253, 254, 255, 256, 257, 65534, 65535];
const U32_EDGES: [u32; 14] = [
    0, 1, 250, 251, 252, 255, 256, 65535, 65536, 0xFF_FFFF, 0x100_0000, 0x7FFF_FFFF, 0xFFFF_FFFE,
    0xFFFF_FFFF,
];
const U64_EDGES: [u64; 20] = [
    0,
    1,
    246,
    247,
    248,
    255,
    256,
    65535,
    65536,
    0xFF_FFFF,
    0x100_0000,
    0xFFFF_FFFF,
    0x1_0000_0000,
    0xFF_FFFF_FFFF,
    0x100_0000_0000,
    0xFFFF_FFFF_FFFF,
    0x1_0000_0000_0000,
    0xFF_FFFF_FFFF_FFFF,
    0x100_0000_0000_0000,
    u64::MAX,
];

fn gen_u16(r: &mut Rng) -> u16 {
    if r.chance(2, 3) {
        *r.pick(&U16_EDGES)
    } else {
        r.next_u64() as u16
    }
}
fn gen_u32(r: &mut Rng) -> u32 {
    if r.chance(2, 3) {
        *r.pick(&U32_EDGES)
    } else {
        r.next_u64() as u32 >> r.below(32)
    }
}
fn gen_u64(r: &mut Rng) -> u64 {
    if r.chance(2, 3) {
        *r.pick(&U64_EDGES)
    } else {
        r.next_u64() >> r.below(64)
    }
}
// signed: pick a zig-zag image at an unsigned boundary, or extremes
fn gen_i16(r: &mut Rng) -> i16 {
    match r.below(4) {
        0 => *r.pick(&[i16::MIN, i16::MAX, 0, -1, 1, -126, -127, 126, 127, -128, 128]),
        1 => unzz(gen_u16(r) as u64) as i16,
        _ => r.next_u64() as i16,
    }
}
fn gen_i32(r: &mut Rng) -> i32 {
    match r.below(4) {
        0 => *r.pick(&[i32::MIN, i32::MAX, 0, -1, 1, -125, -126, 125, 126, -32768, 32768]),
        1 => unzz(gen_u32(r) as u64) as i32,
        _ => (r.next_u64() as i32) >> r.below(32),
    }
}
fn gen_i64(r: &mut Rng) -> i64 {
    match r.below(4) {
        0 => *r.pick(&[i64::MIN, i64::MAX, 0, -1, 1, -123, -124, 123, 124]),
        1 => unzz(gen_u64(r)),
        _ => (r.next_u64() as i64) >> r.below(64),
    }
}
fn gen_f32(r: &mut Rng) -> u32 {
    match r.below(6) {
        0 => 0,
        1 => 0x8000_0000,                               // -0.0
        2 => 0x7FC0_0000 | (r.next_u32() & 0x3F_FFFF),  // quiet NaN w/ payload
        3 => 0x7F80_0001 | (r.next_u32() & 0x3F_FFFF),  // signalling NaN w/ payload
        4 => *r.pick(&[0x7F80_0000, 0xFF80_0000, 1, 0x007F_FFFF, 0xFFFF_FFFF]),
        _ => r.next_u32(),
    }
}
fn gen_f64(r: &mut Rng) -> u64 {
    match r.below(6) {
        0 => 0,
        1 => 0x8000_0000_0000_0000,
        2 => 0x7FF8_0000_0000_0000 | (r.next_u64() & 0x7_FFFF_FFFF_FFFF),
        3 => 0x7FF0_0000_0000_0001 | (r.next_u64() & 0x7_FFFF_FFFF_FFFF),
        4 => *r.pick(&[
            0x7FF0_0000_0000_0000,
            0xFFF0_0000_0000_0000,
            1,
            0xFFFF_FFFF_FFFF_FFFF,
        ]),
        _ => r.next_u64(),
    }
}

pub fn gen_string(r: &mut Rng) -> Vec<u8> {
    let n = match r.below(10) {
        0 => 0,
        1 => *r.pick(&[250usize, 251, 252, 253, 255, 256, 257]),
        2 => r.range(1000, 70000),
        _ => r.range(1, 12),
    };
    let mut s = String::new();
    let alphabet = ["a", "Z", "0", " ", "é", "ß", "→", "𝄞", "\u{0}", "\n", "\u{FEFF}", "漢"];
    while s.len() < n {
        let piece: &&str = r.pick(&alphabet[..]); s.push_str(piece);
    }
    // trim to a char boundary <= n when exact length matters little
    s.into_bytes()
}

pub fn gen_key(r: &mut Rng, kk: KeyKind) -> Key {
    match kk {
        KeyKind::U8 => Key::U8(r.next_u64() as u8),
        KeyKind::I8 => Key::I8(r.next_u64() as i8),
        KeyKind::U16 => Key::U16(gen_u16(r)),
        KeyKind::I16 => Key::I16(gen_i16(r)),
        KeyKind::U32 => Key::U32(gen_u32(r)),
        KeyKind::I32 => Key::I32(gen_i32(r)),
        KeyKind::U64 => Key::U64(gen_u64(r)),
        KeyKind::I64 => Key::I64(gen_i64(r)),
        KeyKind::Str => {
            let mut s = gen_string(r);
            if s.len() > 300 {
                s = b"long-key".to_vec();
            }
            Key::Str(s)
        }
        KeyKind::Uuid => Key::Uuid(r.bytes(16).try_into().unwrap()),
    }
}

fn gen_uuid(r: &mut Rng) -> [u8; 16] {
    match r.below(4) {
        0 => [0; 16],
        1 => [0xFF; 16],
        _ => r.bytes(16).try_into().unwrap(),
    }
}

pub fn gen_leaf(r: &mut Rng) -> RV {
    match r.below(20) {
        0 => RV::None,
        1 => RV::Bool(r.bool()),
        2 => RV::U8(*r.pick(&[0, 1, 127, 128, 254, 255])),
        3 => RV::I8(*r.pick(&[0, 1, -1, 127, -128])),
        4 => RV::U16(gen_u16(r)),
        5 => RV::I16(gen_i16(r)),
        6 => RV::U32(gen_u32(r)),
        7 => RV::I32(gen_i32(r)),
        8 => RV::U64(gen_u64(r)),
        9 => RV::I64(gen_i64(r)),
        10 => RV::F32(gen_f32(r)),
        11 => RV::F64(gen_f64(r)),
        12 => RV::Str(gen_string(r)),
        13 => RV::Uuid(gen_uuid(r)),
        14 => RV::ObjectId(r.bytes(32).try_into().unwrap()),
        15 => RV::ServiceId(r.bytes(64).try_into().unwrap()),
        16 => RV::Sender(gen_uuid(r)),
        17 => RV::Receiver(gen_uuid(r)),
        18 => {
            let n = match r.below(6) {
                0 => 0,
                1 => r.range(250, 260),
                2 => r.range(65530, 65545),
                _ => r.range(1, 20),
            };
            RV::Bytes(r.bytes(n))
        }
        _ => {
            let kk = *r.pick(&KEY_KINDS);
            let n = if r.chance(1, 8) { r.range(200, 300) } else { r.below(5) };
            let mut xs: Vec<Key> = (0..n).map(|_| gen_key(r, kk)).collect();
            xs.sort();
            xs.dedup();
            r.shuffle(&mut xs);
            RV::Set(kk, xs)
        }
    }
}

/// Generates a value whose depth is exactly `target` (>= 1), using every nesting kind, with
/// side branches of smaller depth. `budget` bounds the number of nodes.
pub fn gen_value(r: &mut Rng, target: usize, budget: &mut usize) -> RV {
    if target <= 1 || *budget == 0 {
        if target <= 1 && r.chance(1, 6) {
            // empty containers have depth 1
            return match r.below(3) {
                0 => RV::Vec(vec![]),
                1 => RV::Map(*r.pick(&KEY_KINDS), vec![]),
                _ => RV::Struct(vec![]),
            };
        }
        if target > 1 {
            // budget exhausted: finish the spine with the cheapest wrappers
            let inner = gen_value(r, target - 1, budget);
            return RV::Some(Box::new(inner));
        }
        return gen_leaf(r);
    }
    *budget = budget.saturating_sub(1);
    let side = |r: &mut Rng, budget: &mut usize| -> RV {
        let d = if r.chance(3, 4) { 1 } else { r.range(1, (target - 1).max(1)) };
        gen_value(r, d.min(target - 1).max(1), budget)
    };
    match r.below(5) {
        0 => RV::Some(Box::new(gen_value(r, target - 1, budget))),
        1 => RV::Enum(gen_u32(r), Box::new(gen_value(r, target - 1, budget))),
        2 => {
            let n = r.below(4);
            let pos = r.below(n + 1);
            let mut xs = Vec::new();
            for i in 0..=n {
                if i == pos {
                    xs.push(gen_value(r, target - 1, budget));
                } else {
                    xs.push(side(r, budget));
                }
            }
            RV::Vec(xs)
        }
        3 => {
            let kk = *r.pick(&KEY_KINDS);
            let n = r.below(4);
            let pos = r.below(n + 1);
            let mut xs: Vec<(Key, RV)> = Vec::new();
            for i in 0..=n {
                let key = gen_key(r, kk);
                if xs.iter().any(|(k2, _)| *k2 == key) {
                    if i != pos {
                        continue;
                    }
                    // the spine element must be present: replace the colliding entry
                    xs.retain(|(k2, _)| *k2 != key);
                }
                let v = if i == pos {
                    gen_value(r, target - 1, budget)
                } else {
                    side(r, budget)
                };
                xs.push((key, v));
            }
            RV::Map(kk, xs)
        }
        _ => {
            let n = r.below(4);
            let pos = r.below(n + 1);
            let mut xs: Vec<(u32, RV)> = Vec::new();
            for i in 0..=n {
                let id = gen_u32(r);
                if xs.iter().any(|(i2, _)| *i2 == id) {
                    if i != pos {
                        continue;
                    }
                    xs.retain(|(i2, _)| *i2 != id);
                }
                let v = if i == pos {
                    gen_value(r, target - 1, budget)
                } else {
                    side(r, budget)
                };
                xs.push((id, v));
            }
            RV::Struct(xs)
        }
    }
}

/// A chain of `n` wrappers of one nesting kind around a leaf (depth n+1), for the
/// stack-exhaustion probes. Returns the *encoded bytes* directly (building a 10^5-deep tree
/// would itself recurse).
pub fn deep_chain_bytes(kind: usize, n: usize, epoch: Epoch) -> Vec<u8> {
    let mut head = Vec::new();
    let mut tail = Vec::new();
    for _ in 0..n {
        match (kind, epoch) {
            (0, _) => head.push(k::SOME),
            (1, _) => {
                head.push(k::ENUM);
                head.push(0);
            }
            (2, Epoch::V1) => {
                head.push(k::VEC1);
                head.push(1);
            }
            (2, Epoch::V2) => {
                head.push(k::VEC2);
                head.push(k::SOME);
                tail.push(k::NONE);
            }
            (3, Epoch::V1) => {
                head.push(k::MAP1_BASE);
                head.push(1);
                head.push(7);
            }
            (3, Epoch::V2) => {
                head.push(k::MAP2_BASE);
                head.push(k::SOME);
                head.push(7);
                tail.push(k::NONE);
            }
            (_, Epoch::V1) => {
                head.push(k::STRUCT1);
                head.push(1);
                head.push(3);
            }
            (_, Epoch::V2) => {
                head.push(k::STRUCT2);
                head.push(k::SOME);
                head.push(3);
                tail.push(k::NONE);
            }
        }
    }
    head.push(k::U8);
    head.push(42);
    head.extend_from_slice(&tail);
    head
}

// ---------------------------------------------------------------------------------------------
// Conversions to / from the public dynamic value enum (no codec calls)
// ---------------------------------------------------------------------------------------------

use aldrin_core as ac;

fn uuid_of(b: &[u8]) -> uuid::Uuid {
    uuid::Uuid::from_bytes(b.try_into().unwrap())
}

fn object_id_of(b: &[u8; 32]) -> ac::ObjectId {
    ac::ObjectId::new(
        ac::ObjectUuid(uuid_of(&b[..16])),
        ac::ObjectCookie(uuid_of(&b[16..])),
    )
}

fn service_id_of(b: &[u8; 64]) -> ac::ServiceId {
    ac::ServiceId::new(
        object_id_of(b[..32].try_into().unwrap()),
        ac::ServiceUuid(uuid_of(&b[32..48])),
        ac::ServiceCookie(uuid_of(&b[48..])),
    )
}

fn s(b: &[u8]) -> String {
    String::from_utf8(b.to_vec()).expect("to_aldrin needs utf8_ok values")
}

/// Builds the public dynamic value. Requires `utf8_ok()`. Recursion depth = value depth, so only
/// call this on values of bounded depth.
pub fn to_aldrin(v: &RV) -> ac::Value {
    use ac::Value as V;
    macro_rules! map {
        ($xs:expr, $variant:ident, $kv:ident, $conv:expr) => {{
            let mut m = HashMap::new();
            for (key, val) in $xs {
                if let Key::$kv(x) = key {
                    m.insert($conv(x), to_aldrin(val));
                } else {
                    panic!("key kind mismatch");
                }
            }
            V::$variant(m)
        }};
    }
    macro_rules! set {
        ($xs:expr, $variant:ident, $kv:ident, $conv:expr) => {{
            let mut m = HashSet::new();
            for key in $xs {
                if let Key::$kv(x) = key {
                    m.insert($conv(x));
                } else {
                    panic!("key kind mismatch");
                }
            }
            V::$variant(m)
        }};
    }
    match v {
        RV::None => V::None,
        RV::Some(x) => V::Some(Box::new(to_aldrin(x))),
        RV::Bool(x) => V::Bool(*x),
        RV::U8(x) => V::U8(*x),
        RV::I8(x) => V::I8(*x),
        RV::U16(x) => V::U16(*x),
        RV::I16(x) => V::I16(*x),
        RV::U32(x) => V::U32(*x),
        RV::I32(x) => V::I32(*x),
        RV::U64(x) => V::U64(*x),
        RV::I64(x) => V::I64(*x),
        RV::F32(b) => V::F32(f32::from_bits(*b)),
        RV::F64(b) => V::F64(f64::from_bits(*b)),
        RV::Str(b) => V::String(s(b)),
        RV::Uuid(b) => V::Uuid(uuid_of(b)),
        RV::ObjectId(b) => V::ObjectId(object_id_of(b)),
        RV::ServiceId(b) => V::ServiceId(service_id_of(b)),
        RV::Vec(xs) => V::Vec(xs.iter().map(to_aldrin).collect()),
        RV::Bytes(b) => V::Bytes(ac::Bytes(b.clone())),
        RV::Map(kk, xs) => match kk {
            KeyKind::U8 => map!(xs, U8Map, U8, |x: &u8| *x),
            KeyKind::I8 => map!(xs, I8Map, I8, |x: &i8| *x),
            KeyKind::U16 => map!(xs, U16Map, U16, |x: &u16| *x),
            KeyKind::I16 => map!(xs, I16Map, I16, |x: &i16| *x),
            KeyKind::U32 => map!(xs, U32Map, U32, |x: &u32| *x),
            KeyKind::I32 => map!(xs, I32Map, I32, |x: &i32| *x),
            KeyKind::U64 => map!(xs, U64Map, U64, |x: &u64| *x),
            KeyKind::I64 => map!(xs, I64Map, I64, |x: &i64| *x),
            KeyKind::Str => map!(xs, StringMap, Str, |x: &Vec<u8>| s(x)),
            KeyKind::Uuid => map!(xs, UuidMap, Uuid, |x: &[u8; 16]| uuid_of(x)),
        },
        RV::Set(kk, xs) => match kk {
            KeyKind::U8 => set!(xs, U8Set, U8, |x: &u8| *x),
            KeyKind::I8 => set!(xs, I8Set, I8, |x: &i8| *x),
            KeyKind::U16 => set!(xs, U16Set, U16, |x: &u16| *x),
            KeyKind::I16 => set!(xs, I16Set, I16, |x: &i16| *x),
            KeyKind::U32 => set!(xs, U32Set, U32, |x: &u32| *x),
            KeyKind::I32 => set!(xs, I32Set, I32, |x: &i32| *x),
            KeyKind::U64 => set!(xs, U64Set, U64, |x: &u64| *x),
            KeyKind::I64 => set!(xs, I64Set, I64, |x: &i64| *x),
            KeyKind::Str => set!(xs, StringSet, Str, |x: &Vec<u8>| s(x)),
            KeyKind::Uuid => set!(xs, UuidSet, Uuid, |x: &[u8; 16]| uuid_of(x)),
        },
        RV::Struct(xs) => {
            let mut m = HashMap::new();
            for (id, val) in xs {
                m.insert(*id, to_aldrin(val));
            }
            V::Struct(ac::Struct(m))
        }
        RV::Enum(id, x) => V::Enum(Box::new(ac::Enum::new(*id, to_aldrin(x)))),
        RV::Sender(b) => V::Sender(ac::ChannelCookie(uuid_of(b))),
        RV::Receiver(b) => V::Receiver(ac::ChannelCookie(uuid_of(b))),
    }
}

fn oid_bytes(o: &ac::ObjectId) -> [u8; 32] {
    let mut b = [0u8; 32];
    b[..16].copy_from_slice(o.uuid.0.as_bytes());
    b[16..].copy_from_slice(o.cookie.0.as_bytes());
    b
}

/// Walks the public dynamic value into the reference tree (normalized order).
pub fn from_aldrin(v: &ac::Value) -> RV {
    use ac::Value as V;
    macro_rules! map {
        ($m:expr, $kk:ident, $conv:expr) => {{
            let mut xs: Vec<(Key, RV)> = $m.iter().map(|(k, v)| ($conv(k), from_aldrin(v))).collect();
            xs.sort_by(|a, b| a.0.cmp(&b.0));
            RV::Map(KeyKind::$kk, xs)
        }};
    }
    macro_rules! set {
        ($m:expr, $kk:ident, $conv:expr) => {{
            let mut xs: Vec<Key> = $m.iter().map(|k| $conv(k)).collect();
            xs.sort();
            RV::Set(KeyKind::$kk, xs)
        }};
    }
    match v {
        V::None => RV::None,
        V::Some(x) => RV::Some(Box::new(from_aldrin(x))),
        V::Bool(x) => RV::Bool(*x),
        V::U8(x) => RV::U8(*x),
        V::I8(x) => RV::I8(*x),
        V::U16(x) => RV::U16(*x),
        V::I16(x) => RV::I16(*x),
        V::U32(x) => RV::U32(*x),
        V::I32(x) => RV::I32(*x),
        V::U64(x) => RV::U64(*x),
        V::I64(x) => RV::I64(*x),
        V::F32(x) => RV::F32(x.to_bits()),
        V::F64(x) => RV::F64(x.to_bits()),
        V::String(x) => RV::Str(x.as_bytes().to_vec()),
        V::Uuid(x) => RV::Uuid(*x.as_bytes()),
        V::ObjectId(x) => RV::ObjectId(oid_bytes(x)),
        V::ServiceId(x) => {
            let mut b = [0u8; 64];
            b[..32].copy_from_slice(&oid_bytes(&x.object_id));
            b[32..48].copy_from_slice(x.uuid.0.as_bytes());
            b[48..].copy_from_slice(x.cookie.0.as_bytes());
            RV::ServiceId(b)
        }
        V::Vec(xs) => RV::Vec(xs.iter().map(from_aldrin).collect()),
        V::Bytes(b) => RV::Bytes(b.0.clone()),
        V::U8Map(m) => map!(m, U8, |k: &u8| Key::U8(*k)),
        V::I8Map(m) => map!(m, I8, |k: &i8| Key::I8(*k)),
        V::U16Map(m) => map!(m, U16, |k: &u16| Key::U16(*k)),
        V::I16Map(m) => map!(m, I16, |k: &i16| Key::I16(*k)),
        V::U32Map(m) => map!(m, U32, |k: &u32| Key::U32(*k)),
        V::I32Map(m) => map!(m, I32, |k: &i32| Key::I32(*k)),
        V::U64Map(m) => map!(m, U64, |k: &u64| Key::U64(*k)),
        V::I64Map(m) => map!(m, I64, |k: &i64| Key::I64(*k)),
        V::StringMap(m) => map!(m, Str, |k: &String| Key::Str(k.as_bytes().to_vec())),
        V::UuidMap(m) => map!(m, Uuid, |k: &uuid::Uuid| Key::Uuid(*k.as_bytes())),
        V::U8Set(m) => set!(m, U8, |k: &u8| Key::U8(*k)),
        V::I8Set(m) => set!(m, I8, |k: &i8| Key::I8(*k)),
        V::U16Set(m) => set!(m, U16, |k: &u16| Key::U16(*k)),
        V::I16Set(m) => set!(m, I16, |k: &i16| Key::I16(*k)),
        V::U32Set(m) => set!(m, U32, |k: &u32| Key::U32(*k)),
        V::I32Set(m) => set!(m, I32, |k: &i32| Key::I32(*k)),
        V::U64Set(m) => set!(m, U64, |k: &u64| Key::U64(*k)),
        V::I64Set(m) => set!(m, I64, |k: &i64| Key::I64(*k)),
        V::StringSet(m) => set!(m, Str, |k: &String| Key::Str(k.as_bytes().to_vec())),
        V::UuidSet(m) => set!(m, Uuid, |k: &uuid::Uuid| Key::Uuid(*k.as_bytes())),
        V::Struct(st) => {
            let mut xs: Vec<(u32, RV)> = st.0.iter().map(|(id, v)| (*id, from_aldrin(v))).collect();
            xs.sort_by_key(|x| x.0);
            RV::Struct(xs)
        }
        V::Enum(e) => RV::Enum(e.id, Box::new(from_aldrin(&e.value))),
        V::Sender(c) => RV::Sender(*c.0.as_bytes()),
        V::Receiver(c) => RV::Receiver(*c.0.as_bytes()),
    }
}
