//! Thin adapters around the *real* aldrin codec: everything here calls public aldrin API only.

use super::rv::{Key, KeyKind, RV};
use aldrin_core as ac;
use aldrin_core::message::{MessageOps, SendItem};
use aldrin_core::tags;
use aldrin_core::{
    Deserialize, DeserializeError, Deserializer, Serialize, SerializeError, SerializedValue,
    Serializer,
};
use bytes::BytesMut;

/// Wraps arbitrary non-empty bytes into a `SerializedValue` through the public message parser
/// (a `SendItem` frame is `[len:4][kind:1][value_len:4][value][cookie:16]`).
pub fn sv_from_bytes(bytes: &[u8]) -> Option<SerializedValue> {
    if bytes.is_empty() {
        return None;
    }
    let total = 9 + bytes.len() + 16;
    let mut buf = BytesMut::with_capacity(total);
    buf.extend_from_slice(&(total as u32).to_le_bytes());
    buf.extend_from_slice(&[27]);
    buf.extend_from_slice(&(bytes.len() as u32).to_le_bytes());
    buf.extend_from_slice(bytes);
    buf.extend_from_slice(&[0u8; 16]);
    let msg = SendItem::deserialize_message(buf).expect("SendItem frame built by harness must parse");
    Some(msg.value)
}

pub fn sv_bytes(sv: &SerializedValue) -> Vec<u8> {
    let slice: &ac::SerializedValueSlice = sv;
    let b: &[u8] = slice;
    b.to_vec()
}

/// Real current-epoch serialization of the public dynamic value.
pub fn encode_v2(v: &ac::Value) -> Result<Vec<u8>, SerializeError> {
    SerializedValue::serialize(v).map(|sv| sv_bytes(&sv))
}

/// Real decode of bytes as a dynamic value (public entry point; checks trailing data).
pub fn decode(bytes: &[u8]) -> Option<Result<ac::Value, DeserializeError>> {
    let sv = sv_from_bytes(bytes)?;
    Some(sv.deserialize_as_value())
}

pub fn kind(bytes: &[u8]) -> Option<Result<ac::ValueKind, DeserializeError>> {
    let sv = sv_from_bytes(bytes)?;
    Some(sv.kind())
}

/// Drives the real legacy builders (`serialize_{vec1,bytes1,map1,set1,struct1}`) for a reference
/// tree: every container is written in the length-prefixed epoch.
pub struct Legacy<'a>(pub &'a RV);

fn s(b: &[u8]) -> &str {
    std::str::from_utf8(b).expect("Legacy needs utf8_ok values")
}

macro_rules! map1 {
    ($ser:expr, $xs:expr, $tag:ty, $kv:ident, $conv:expr) => {{
        let mut m = $ser.serialize_map1::<$tag>($xs.len())?;
        for (key, val) in $xs {
            if let Key::$kv(x) = key {
                m.serialize(&$conv(x), Legacy(val))?;
            } else {
                unreachable!()
            }
        }
        m.finish()
    }};
}

macro_rules! set1 {
    ($ser:expr, $xs:expr, $tag:ty, $kv:ident, $conv:expr) => {{
        let mut m = $ser.serialize_set1::<$tag>($xs.len())?;
        for key in $xs {
            if let Key::$kv(x) = key {
                m.serialize(&$conv(x))?;
            } else {
                unreachable!()
            }
        }
        m.finish()
    }};
}

fn uuid_of(b: &[u8]) -> uuid::Uuid {
    uuid::Uuid::from_bytes(b.try_into().unwrap())
}

impl Serialize<tags::Value> for Legacy<'_> {
    fn serialize(self, ser: Serializer) -> Result<(), SerializeError> {
        match self.0 {
            RV::Some(x) => ser.serialize_some::<tags::Value>(Legacy(x)),
            RV::Enum(id, x) => ser.serialize_enum::<tags::Value>(*id, Legacy(x)),
            RV::Vec(xs) => {
                let mut v = ser.serialize_vec1(xs.len())?;
                for x in xs {
                    v.serialize::<tags::Value>(Legacy(x))?;
                }
                v.finish()
            }
            RV::Bytes(b) => ser.serialize_byte_slice1(b),
            RV::Struct(xs) => {
                let mut st = ser.serialize_struct1(xs.len())?;
                for (id, x) in xs {
                    st.serialize::<tags::Value>(*id, Legacy(x))?;
                }
                st.finish()
            }
            RV::Map(kk, xs) => match kk {
                KeyKind::U8 => map1!(ser, xs, tags::U8, U8, |x: &u8| *x),
                KeyKind::I8 => map1!(ser, xs, tags::I8, I8, |x: &i8| *x),
                KeyKind::U16 => map1!(ser, xs, tags::U16, U16, |x: &u16| *x),
                KeyKind::I16 => map1!(ser, xs, tags::I16, I16, |x: &i16| *x),
                KeyKind::U32 => map1!(ser, xs, tags::U32, U32, |x: &u32| *x),
                KeyKind::I32 => map1!(ser, xs, tags::I32, I32, |x: &i32| *x),
                KeyKind::U64 => map1!(ser, xs, tags::U64, U64, |x: &u64| *x),
                KeyKind::I64 => map1!(ser, xs, tags::I64, I64, |x: &i64| *x),
                KeyKind::Str => map1!(ser, xs, tags::String, Str, |x: &Vec<u8>| s(x).to_owned()),
                KeyKind::Uuid => map1!(ser, xs, tags::Uuid, Uuid, |x: &[u8; 16]| uuid_of(x)),
            },
            RV::Set(kk, xs) => match kk {
                KeyKind::U8 => set1!(ser, xs, tags::U8, U8, |x: &u8| *x),
                KeyKind::I8 => set1!(ser, xs, tags::I8, I8, |x: &i8| *x),
                KeyKind::U16 => set1!(ser, xs, tags::U16, U16, |x: &u16| *x),
                KeyKind::I16 => set1!(ser, xs, tags::I16, I16, |x: &i16| *x),
                KeyKind::U32 => set1!(ser, xs, tags::U32, U32, |x: &u32| *x),
                KeyKind::I32 => set1!(ser, xs, tags::I32, I32, |x: &i32| *x),
                KeyKind::U64 => set1!(ser, xs, tags::U64, U64, |x: &u64| *x),
                KeyKind::I64 => set1!(ser, xs, tags::I64, I64, |x: &i64| *x),
                KeyKind::Str => set1!(ser, xs, tags::String, Str, |x: &Vec<u8>| s(x).to_owned()),
                KeyKind::Uuid => set1!(ser, xs, tags::Uuid, Uuid, |x: &[u8; 16]| uuid_of(x)),
            },
            // leaves: go through the public dynamic value
            leaf => ser.serialize(&super::rv::to_aldrin(leaf)),
        }
    }
}

pub fn encode_v1(v: &RV) -> Result<Vec<u8>, SerializeError> {
    SerializedValue::serialize_as::<tags::Value>(Legacy(v)).map(|sv| sv_bytes(&sv))
}

/// A `Deserialize` probe that measures a value with `Deserializer::len()` and then skips it.
pub struct LenThenSkip(pub usize);

impl Deserialize<tags::Value> for LenThenSkip {
    fn deserialize(d: Deserializer) -> Result<Self, DeserializeError> {
        let n = d.len()?;
        d.skip()?;
        Ok(Self(n))
    }
}

/// A probe that only skips.
pub struct SkipOnly;

impl Deserialize<tags::Value> for SkipOnly {
    fn deserialize(d: Deserializer) -> Result<Self, DeserializeError> {
        d.skip()?;
        Ok(Self)
    }
}

/// Real skip: Ok(n) = skip accepted the value and it spans exactly all n input bytes;
/// Err(TrailingData) when the value is a strict prefix.
pub fn len_then_skip(bytes: &[u8]) -> Option<Result<usize, DeserializeError>> {
    let sv = sv_from_bytes(bytes)?;
    Some(sv.deserialize_as::<tags::Value, LenThenSkip>().map(|x| x.0))
}

/// Real split-off: deserializes the bytes as an opaque `SerializedValue` (the skip path used for
/// unknown / pass-through values) and returns the captured bytes.
pub fn split_off(bytes: &[u8]) -> Option<Result<Vec<u8>, DeserializeError>> {
    let sv = sv_from_bytes(bytes)?;
    Some(
        sv.deserialize_as::<tags::Value, SerializedValue>()
            .map(|x| sv_bytes(&x)),
    )
}

/// Measures a *prefix value*: wraps `bytes` so that the value is followed by other data and
/// reports how many bytes the real `len()` attributes to it. Implemented by embedding the bytes
/// as the single element of a legacy vec: `[Vec1, 1, bytes...]` and reading the element with a
/// probe that calls `len()`.
pub struct FirstElemLen(pub usize);

impl Deserialize<tags::Value> for FirstElemLen {
    fn deserialize(d: Deserializer) -> Result<Self, DeserializeError> {
        let mut v = d.deserialize_vec1()?;
        let n = v
            .deserialize::<tags::Value, LenThenSkip>()?
            .ok_or(DeserializeError::NoMoreElements)?;
        // ignore whatever follows
        Ok(Self(n.0))
    }
}

pub fn prefix_len(bytes: &[u8]) -> Result<usize, DeserializeError> {
    let mut framed = vec![17u8, 1];
    framed.extend_from_slice(bytes);
    let sv = sv_from_bytes(&framed).unwrap();
    // deserialize_as reports TrailingData if the probe left bytes; map that back to Ok by
    // reading the length inside the probe. We therefore call the probe through a wrapper that
    // stores the length before the trailing check happens.
    thread_local! { static LAST: std::cell::Cell<Option<usize>> = const { std::cell::Cell::new(None) }; }
    struct Wrap;
    impl Deserialize<tags::Value> for Wrap {
        fn deserialize(d: Deserializer) -> Result<Self, DeserializeError> {
            let r = FirstElemLen::deserialize(d)?;
            LAST.with(|l| l.set(Some(r.0)));
            Ok(Wrap)
        }
    }
    LAST.with(|l| l.set(None));
    match sv.deserialize_as::<tags::Value, Wrap>() {
        Ok(_) => Ok(LAST.with(|l| l.get()).unwrap()),
        Err(DeserializeError::TrailingData) => Ok(LAST.with(|l| l.get()).unwrap()),
        Err(e) => Err(e),
    }
}
