pub mod mutate;
pub mod real;
pub mod rv;
