//! Byte-level mutators for valid encodings.

use crate::prng::Rng;

pub const MUTATORS: [&str; 10] = [
    "flip-bit",
    "set-byte",
    "insert",
    "delete",
    "truncate",
    "inflate-length",
    "splice",
    "kind-swap",
    "dup-range",
    "append",
];

/// Applies one random mutation; returns its name.
pub fn mutate(r: &mut Rng, buf: &mut Vec<u8>, other: &[u8]) -> &'static str {
    if buf.is_empty() {
        buf.push(r.next_u64() as u8);
        return "insert";
    }
    let which = r.below(MUTATORS.len());
    match which {
        0 => {
            let i = r.below(buf.len());
            buf[i] ^= 1 << r.below(8);
        }
        1 => {
            let i = r.below(buf.len());
            // bias to valid kind bytes and varint markers
            buf[i] = match r.below(4) {
                0 => r.below(66) as u8,
                1 => *r.pick(&[0u8, 1, 246, 247, 248, 251, 252, 253, 254, 255]),
                _ => r.next_u64() as u8,
            };
        }
        2 => {
            let i = r.below(buf.len() + 1);
            let n = r.range(1, 4);
            for _ in 0..n {
                buf.insert(i, if r.bool() { r.below(66) as u8 } else { r.next_u64() as u8 });
            }
        }
        3 => {
            let i = r.below(buf.len());
            let n = r.range(1, 4).min(buf.len() - i);
            buf.drain(i..i + n);
        }
        4 => {
            let n = r.below(buf.len());
            buf.truncate(n);
        }
        5 => {
            // overwrite a position with a maximal varint (u32::MAX / u64::MAX style)
            let i = r.below(buf.len());
            let w = *r.pick(&[2usize, 4, 8]);
            let mut ins = vec![255u8];
            ins.extend(std::iter::repeat(0xFF).take(w));
            if r.bool() {
                // a large-but-not-max length
                ins[w] = 0x7F;
            }
            buf.splice(i..(i + 1).min(buf.len()), ins);
        }
        6 => {
            if !other.is_empty() {
                let i = r.below(buf.len());
                let j = r.below(other.len());
                let n = r.range(1, 16).min(other.len() - j);
                buf.splice(i..i, other[j..j + n].iter().copied());
            }
        }
        7 => {
            // swap a V1 container kind for the V2 one or vice versa
            let idxs: Vec<usize> = (0..buf.len()).filter(|&i| (17..=65).contains(&buf[i])).collect();
            if let Some(&i) = idxs.get(r.below(idxs.len().max(1))) {
                let b = buf[i];
                buf[i] = if (17..=39).contains(&b) { b + 26 } else if (43..=65).contains(&b) { b - 26 } else { b };
            }
        }
        8 => {
            let i = r.below(buf.len());
            let n = r.range(1, 8).min(buf.len() - i);
            let dup: Vec<u8> = buf[i..i + n].to_vec();
            buf.splice(i..i, dup);
        }
        _ => {
            let n = r.range(1, 3);
            for _ in 0..n {
                buf.push(r.next_u64() as u8);
            }
        }
    }
    MUTATORS[which]
}

/// Random bytes biased to valid kind bytes.
pub fn soup(r: &mut Rng, n: usize) -> Vec<u8> {
    (0..n)
        .map(|_| match r.below(5) {
            0 | 1 => r.below(66) as u8,
            2 => *r.pick(&[0u8, 1, 1, 1, 2, 3, 17, 39, 40, 43, 65, 255, 254]),
            _ => r.next_u64() as u8,
        })
        .collect()
}
