//! Schema lab: grammar-directed schema generator with arbitrary legal layout, AST projection
//! through the parser's public accessors, token-soup and mutation generators.
pub mod conform;
pub mod gen;
pub mod proj;
