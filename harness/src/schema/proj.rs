//! Projection of a parsed schema through the public AST accessors: definitions in order with
//! names, ids, types, attributes, comment and doc lines (`value_inner`), imports as a sorted set.
//! Positions are not part of it.

use aldrin_parser::ast::*;
use aldrin_parser::Schema;
use std::fmt::Write;

fn comments(out: &mut String, cs: &[Comment]) {
    for c in cs {
        let _ = write!(out, " //{:?}", c.value_inner());
    }
}

fn docs(out: &mut String, ds: &[DocString]) {
    for d in ds {
        let _ = write!(out, " ///{:?}", d.value_inner());
    }
}

fn attrs(out: &mut String, xs: &[Attribute]) {
    for a in xs {
        let _ = write!(out, " #[{}({})]", a.name().value(), a.options().iter().map(|o| o.value()).collect::<Vec<_>>().join(","));
    }
}

pub fn type_name(t: &TypeName) -> String {
    match t.kind() {
        TypeNameKind::Bool => "bool".into(),
        TypeNameKind::U8 => "u8".into(),
        TypeNameKind::I8 => "i8".into(),
        TypeNameKind::U16 => "u16".into(),
        TypeNameKind::I16 => "i16".into(),
        TypeNameKind::U32 => "u32".into(),
        TypeNameKind::I32 => "i32".into(),
        TypeNameKind::U64 => "u64".into(),
        TypeNameKind::I64 => "i64".into(),
        TypeNameKind::F32 => "f32".into(),
        TypeNameKind::F64 => "f64".into(),
        TypeNameKind::String => "string".into(),
        TypeNameKind::Uuid => "uuid".into(),
        TypeNameKind::ObjectId => "object_id".into(),
        TypeNameKind::ServiceId => "service_id".into(),
        TypeNameKind::Value => "value".into(),
        TypeNameKind::Bytes => "bytes".into(),
        TypeNameKind::Lifetime => "lifetime".into(),
        TypeNameKind::Unit => "unit".into(),
        TypeNameKind::Option(x) => format!("option<{}>", type_name(x)),
        TypeNameKind::Box(x) => format!("box<{}>", type_name(x)),
        TypeNameKind::Vec(x) => format!("vec<{}>", type_name(x)),
        TypeNameKind::Set(x) => format!("set<{}>", type_name(x)),
        TypeNameKind::Sender(x) => format!("sender<{}>", type_name(x)),
        TypeNameKind::Receiver(x) => format!("receiver<{}>", type_name(x)),
        TypeNameKind::Map(k, v) => format!("map<{}->{}>", type_name(k), type_name(v)),
        TypeNameKind::Result(a, b) => format!("result<{},{}>", type_name(a), type_name(b)),
        TypeNameKind::Array(x, len) => format!(
            "[{};{}]",
            type_name(x),
            match len.value() {
                ArrayLenValue::Literal(l) => l.value().to_string(),
                ArrayLenValue::Ref(r) => named_ref(r),
            }
        ),
        TypeNameKind::Ref(r) => named_ref(r),
    }
}

fn named_ref(r: &NamedRef) -> String {
    match r.kind() {
        NamedRefKind::Intern(i) => i.value().to_string(),
        NamedRefKind::Extern(s, i) => format!("{}::{}", s.value(), i.value()),
    }
}

fn fields(out: &mut String, fs: &[StructField], fb: Option<&StructFallback>) {
    for f in fs {
        out.push_str("\n    field");
        comments(out, f.comment());
        docs(out, f.doc());
        let _ = write!(out, " {}{} @{} = {}", if f.required() { "required " } else { "" }, f.name().value(), f.id().value(), type_name(f.field_type()));
    }
    if let Some(f) = fb {
        out.push_str("\n    fallback");
        comments(out, f.comment());
        docs(out, f.doc());
        let _ = write!(out, " {}", f.name().value());
    }
}

fn variants(out: &mut String, vs: &[EnumVariant], fb: Option<&EnumFallback>) {
    for v in vs {
        out.push_str("\n    variant");
        comments(out, v.comment());
        docs(out, v.doc());
        let _ = write!(out, " {} @{}", v.name().value(), v.id().value());
        if let Some(t) = v.variant_type() {
            let _ = write!(out, " = {}", type_name(t));
        }
    }
    if let Some(f) = fb {
        out.push_str("\n    fallback");
        comments(out, f.comment());
        docs(out, f.doc());
        let _ = write!(out, " {}", f.name().value());
    }
}

fn part(out: &mut String, p: &TypeNameOrInline) {
    match p {
        TypeNameOrInline::TypeName(t) => out.push_str(&type_name(t)),
        TypeNameOrInline::Struct(s) => {
            out.push_str("struct{");
            docs(out, s.doc());
            attrs(out, s.attributes());
            fields(out, s.fields(), s.fallback());
            out.push('}');
        }
        TypeNameOrInline::Enum(e) => {
            out.push_str("enum{");
            docs(out, e.doc());
            attrs(out, e.attributes());
            variants(out, e.variants(), e.fallback());
            out.push('}');
        }
    }
}

pub fn project(s: &Schema) -> String {
    let mut out = String::new();
    out.push_str("header");
    comments(&mut out, s.comment());
    docs(&mut out, s.doc());
    let mut imports: Vec<String> = s
        .imports()
        .iter()
        .map(|i| {
            let mut t = String::new();
            comments(&mut t, i.comment());
            format!("import {}{}", i.schema_name().value(), t)
        })
        .collect();
    imports.sort();
    for i in imports {
        out.push('\n');
        out.push_str(&i);
    }
    for d in s.definitions() {
        match d {
            Definition::Struct(st) => {
                out.push_str("\nstruct");
                comments(&mut out, st.comment());
                docs(&mut out, st.doc());
                attrs(&mut out, st.attributes());
                let _ = write!(out, " {}", st.name().value());
                fields(&mut out, st.fields(), st.fallback());
            }
            Definition::Enum(e) => {
                out.push_str("\nenum");
                comments(&mut out, e.comment());
                docs(&mut out, e.doc());
                attrs(&mut out, e.attributes());
                let _ = write!(out, " {}", e.name().value());
                variants(&mut out, e.variants(), e.fallback());
            }
            Definition::Const(c) => {
                out.push_str("\nconst");
                comments(&mut out, c.comment());
                docs(&mut out, c.doc());
                let v = match c.value() {
                    ConstValue::U8(l) => format!("u8({})", l.value()),
                    ConstValue::I8(l) => format!("i8({})", l.value()),
                    ConstValue::U16(l) => format!("u16({})", l.value()),
                    ConstValue::I16(l) => format!("i16({})", l.value()),
                    ConstValue::U32(l) => format!("u32({})", l.value()),
                    ConstValue::I32(l) => format!("i32({})", l.value()),
                    ConstValue::U64(l) => format!("u64({})", l.value()),
                    ConstValue::I64(l) => format!("i64({})", l.value()),
                    ConstValue::String(l) => format!("string({:?})", l.value_inner()),
                    ConstValue::Uuid(l) => format!("uuid({})", l.value().to_lowercase()),
                };
                let _ = write!(out, " {} = {}", c.name().value(), v);
            }
            Definition::Newtype(n) => {
                out.push_str("\nnewtype");
                comments(&mut out, n.comment());
                docs(&mut out, n.doc());
                attrs(&mut out, n.attributes());
                let _ = write!(out, " {} = {}", n.name().value(), type_name(n.target_type()));
            }
            Definition::Service(sv) => {
                out.push_str("\nservice");
                comments(&mut out, sv.comment());
                docs(&mut out, sv.doc());
                let _ = write!(out, " {} uuid", sv.name().value());
                comments(&mut out, sv.uuid_comment());
                let _ = write!(out, " {} version", sv.uuid().value().to_lowercase());
                comments(&mut out, sv.version_comment());
                let _ = write!(out, " {}", sv.version().value());
                for it in sv.items() {
                    match it {
                        ServiceItem::Function(f) => {
                            out.push_str("\n  fn");
                            comments(&mut out, f.comment());
                            docs(&mut out, f.doc());
                            let _ = write!(out, " {} @{}", f.name().value(), f.id().value());
                            for (kw, p) in [("args", f.args()), ("ok", f.ok()), ("err", f.err())] {
                                if let Some(p) = p {
                                    let _ = write!(out, "\n   {}", kw);
                                    comments(&mut out, p.comment());
                                    out.push_str(" = ");
                                    part(&mut out, p.part_type());
                                }
                            }
                        }
                        ServiceItem::Event(e) => {
                            out.push_str("\n  event");
                            comments(&mut out, e.comment());
                            docs(&mut out, e.doc());
                            let _ = write!(out, " {} @{}", e.name().value(), e.id().value());
                            if let Some(p) = e.event_type() {
                                out.push_str(" = ");
                                part(&mut out, p);
                            }
                        }
                    }
                }
                if let Some(f) = sv.function_fallback() {
                    out.push_str("\n  fn-fallback");
                    comments(&mut out, f.comment());
                    docs(&mut out, f.doc());
                    let _ = write!(out, " {}", f.name().value());
                }
                if let Some(f) = sv.event_fallback() {
                    out.push_str("\n  event-fallback");
                    comments(&mut out, f.comment());
                    docs(&mut out, f.doc());
                    let _ = write!(out, " {}", f.name().value());
                }
            }
        }
    }
    out
}
