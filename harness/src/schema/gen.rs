//! Grammar-directed schema generator: an abstract schema (own small AST) plus a renderer that
//! lays it out with arbitrary legal whitespace, blank lines, comments, doc strings and attributes
//! wherever `parser/grammar.pest` admits them.

use crate::prng::Rng;

#[derive(Clone, Debug, PartialEq)]
pub enum AType {
    Bool,
    U8,
    I8,
    U16,
    I16,
    U32,
    I32,
    U64,
    I64,
    F32,
    F64,
    String,
    Uuid,
    ObjectId,
    ServiceId,
    Value,
    Bytes,
    Lifetime,
    Unit,
    Option(Box<AType>),
    Box(Box<AType>),
    Vec(Box<AType>),
    Map(Box<AType>, Box<AType>),
    Set(Box<AType>),
    Sender(Box<AType>),
    Receiver(Box<AType>),
    Result(Box<AType>, Box<AType>),
    Array(Box<AType>, ALen),
    Named(String),
    Extern(String, String),
}

#[derive(Clone, Debug, PartialEq)]
pub enum ALen {
    Lit(u32),
    Const(String),
}

#[derive(Clone, Debug, Default, PartialEq)]
pub struct Prelude {
    pub comments: Vec<String>,
    pub docs: Vec<String>,
    pub attrs: Vec<(String, Vec<String>)>,
}

#[derive(Clone, Debug, PartialEq)]
pub struct AField {
    pub pre: Prelude,
    pub name: String,
    pub id: u32,
    pub required: bool,
    pub ty: AType,
}

#[derive(Clone, Debug, PartialEq)]
pub struct AVariant {
    pub pre: Prelude,
    pub name: String,
    pub id: u32,
    pub ty: Option<AType>,
}

#[derive(Clone, Debug, PartialEq)]
pub struct AStruct {
    pub pre: Prelude,
    pub name: String,
    pub fields: Vec<AField>,
    pub fallback: Option<(Prelude, String)>,
}

#[derive(Clone, Debug, PartialEq)]
pub struct AEnum {
    pub pre: Prelude,
    pub name: String,
    pub variants: Vec<AVariant>,
    pub fallback: Option<(Prelude, String)>,
}

#[derive(Clone, Debug, PartialEq)]
pub enum APart {
    Type(AType),
    Struct(AStruct),
    Enum(AEnum),
}

#[derive(Clone, Debug, PartialEq)]
pub enum AItem {
    Fn { pre: Prelude, name: String, id: u32, args: Option<(Vec<String>, APart)>, ok: Option<(Vec<String>, APart)>, err: Option<(Vec<String>, APart)>, short_ok: bool },
    Event { pre: Prelude, name: String, id: u32, ty: Option<APart> },
}

#[derive(Clone, Debug, PartialEq)]
pub struct AService {
    pub pre: Prelude,
    pub name: String,
    pub uuid: String,
    pub uuid_comments: Vec<String>,
    pub version: u32,
    pub version_comments: Vec<String>,
    pub items: Vec<AItem>,
    pub fn_fallback: Option<(Prelude, String)>,
    pub ev_fallback: Option<(Prelude, String)>,
    pub ev_fallback_first: bool,
}

#[derive(Clone, Debug, PartialEq)]
pub enum AConstValue {
    Int(&'static str, i128),
    Str(String),
    Uuid(String),
}

#[derive(Clone, Debug, PartialEq)]
pub enum ADef {
    Struct(AStruct),
    Enum(AEnum),
    Service(AService),
    Const { pre: Prelude, name: String, value: AConstValue },
    Newtype { pre: Prelude, name: String, ty: AType },
}

impl ADef {
    pub fn name(&self) -> &str {
        match self {
            ADef::Struct(s) => &s.name,
            ADef::Enum(e) => &e.name,
            ADef::Service(s) => &s.name,
            ADef::Const { name, .. } => name,
            ADef::Newtype { name, .. } => name,
        }
    }
}

#[derive(Clone, Debug, Default, PartialEq)]
pub struct ASchema {
    pub name: String,
    /// leading (comments, inline doc) groups
    pub header: Vec<(Vec<String>, String)>,
    pub imports: Vec<(Vec<String>, String)>,
    pub defs: Vec<ADef>,
}

#[derive(Clone, Copy, Debug)]
pub struct GenCfg {
    /// only produce schemas without semantic errors (unique names/ids, resolvable references,
    /// legal key types, recursion only through indirection)
    pub valid: bool,
    /// adversarial documentation text
    pub hostile_docs: bool,
    pub max_defs: usize,
    pub comments: bool,
    pub attrs: bool,
    /// types usable across the wire in generated code (no sender/receiver/lifetime payloads)
    pub plain_types_only: bool,
}

const KEY_TYPES: [AType; 10] = [AType::U8, AType::I8, AType::U16, AType::I16, AType::U32, AType::I32, AType::U64, AType::I64, AType::String, AType::Uuid];

const WORDS: [&str; 24] = [
    "alpha", "beta", "gamma", "delta", "item", "value", "count", "name", "kind", "state", "index", "total", "left", "right", "first", "last", "size", "data", "flag", "mode", "node", "link", "path", "time",
];
/// identifiers that are keywords or builtins somewhere (raw identifiers in generated Rust)
const AWKWARD: [&str; 12] = ["type", "match", "loop", "move", "ref", "self_", "box_", "async", "yield", "try", "union", "dyn"];

pub struct SchemaGen<'a> {
    pub r: &'a mut Rng,
    pub cfg: GenCfg,
    used_names: Vec<String>,
    type_names: Vec<String>,
    const_ints: Vec<String>,
    uuid_n: u64,
    /// service uuids that may be reused on purpose (invalid mode): duplicates across schemas
    pub reuse_uuids: Vec<String>,
    /// types of imported schemas usable as `schema::Type` anywhere a type is expected
    ext_types: Vec<(String, String)>,
    /// newtypes of importable schemas that resolve to a key type (set by the caller)
    pub ext_key_types: Vec<(String, String)>,
    /// newtypes (own or imported) that resolve to a key type: legal as map keys / set elements
    key_newtypes: Vec<AType>,
}

fn camel(w: &[&str]) -> String {
    w.iter().map(|s| {
        let mut c = s.chars();
        match c.next() {
            Some(f) => f.to_uppercase().collect::<String>() + c.as_str(),
            None => String::new(),
        }
    }).collect()
}

impl<'a> SchemaGen<'a> {
    pub fn new(r: &'a mut Rng, cfg: GenCfg) -> Self {
        SchemaGen { r, cfg, used_names: Vec::new(), type_names: Vec::new(), const_ints: Vec::new(), uuid_n: 0, reuse_uuids: Vec::new(), ext_types: Vec::new(), ext_key_types: Vec::new(), key_newtypes: Vec::new() }
    }

    fn words(&mut self, n: usize) -> Vec<&'static str> {
        (0..n).map(|_| *self.r.pick(&WORDS)).collect()
    }

    fn snake(&mut self) -> String {
        if self.r.chance(1, 12) {
            return self.r.pick(&AWKWARD).to_string();
        }
        let n = self.r.range(1, 2);
        let w = self.words(n);
        let mut s = w.join("_");
        if self.r.chance(1, 6) {
            s.push_str(&format!("{}", self.r.below(10)));
        }
        s
    }

    fn fresh_type_name(&mut self) -> String {
        loop {
            let n = self.r.range(1, 2);
            let mut s = camel(&self.words(n));
            if self.r.chance(1, 4) {
                s.push_str(&format!("{}", self.r.below(100)));
            }
            if !self.used_names.contains(&s) {
                self.used_names.push(s.clone());
                return s;
            }
        }
    }

    fn uniq_in(&mut self, used: &mut Vec<String>, snake: bool) -> String {
        for _ in 0..50 {
            let s = if snake { self.snake() } else { let n = self.r.range(1, 2); camel(&self.words(n)) };
            if !used.contains(&s) {
                used.push(s.clone());
                return s;
            }
        }
        let s = format!("{}{}", if snake { "x" } else { "X" }, used.len());
        used.push(s.clone());
        s
    }

    fn uuid(&mut self) -> String {
        if !self.cfg.valid && !self.reuse_uuids.is_empty() && self.r.chance(1, 2) {
            return self.r.pick(&self.reuse_uuids).clone();
        }
        self.uuid_n += 1;
        let a = self.r.next_u64();
        let b = self.r.next_u64() ^ self.uuid_n;
        let hex = format!("{:016x}{:016x}", a, b);
        let mut s = format!("{}-{}-{}-{}-{}", &hex[0..8], &hex[8..12], &hex[12..16], &hex[16..20], &hex[20..32]);
        if self.r.chance(1, 4) {
            s = s.to_uppercase();
        }
        s
    }

    fn doc_text(&mut self) -> String {
        let plain = ["Some text.", "A value", "", "  indented", "See `code` here", "Multi word doc string with several words in it"];
        let hostile = [
            "Link to [Foo] and [`Bar`].",
            "[text](http://example.com/a_b)",
            "Tab\there",
            "Umlaut äöü and 漢字 and emoji 🎉 at the end 🎉",
            "Trailing spaces   ",
            "Say \"hi\" and back\\slash",
            "* list item\n",
            "    code block line",
            "[broken",
            "`unclosed backtick",
            "# Heading",
            "<html> & entities &amp;",
            "[Self::x] [crate::y] [a::b]",
            "\u{00a0}nbsp start",
            "é",
        ];
        let s = if self.cfg.hostile_docs && self.r.chance(1, 2) { *self.r.pick(&hostile) } else { *self.r.pick(&plain) };
        s.trim_end_matches('\n').to_string()
    }

    fn prelude(&mut self, attrs: bool) -> Prelude {
        let mut p = Prelude::default();
        if self.cfg.comments {
            for _ in 0..self.r.below(3) {
                if self.r.chance(1, 2) {
                    let t = self.doc_text();
                    p.comments.push(t);
                }
            }
        }
        for _ in 0..self.r.below(3) {
            if self.r.chance(1, 2) {
                let t = self.doc_text();
                p.docs.push(t);
            }
        }
        if attrs && self.cfg.attrs && self.r.chance(1, 5) {
            let name = self.snake();
            let mut used = Vec::new();
            let n = self.r.below(3);
            let opts: Vec<String> = (0..n).map(|_| self.uniq_in(&mut used, true)).collect();
            p.attrs.push((name, opts));
        }
        p
    }

    /// A legal key type: a built-in key type or a newtype that resolves to one.
    fn key_ty(&mut self) -> AType {
        if !self.key_newtypes.is_empty() && self.r.chance(1, 4) {
            return self.r.pick(&self.key_newtypes).clone();
        }
        self.r.pick(&KEY_TYPES).clone()
    }

    fn is_key(&self, t: &AType) -> bool {
        KEY_TYPES.contains(t) || self.key_newtypes.contains(t)
    }

    pub fn ty(&mut self, depth: usize) -> AType {
        let leaf = depth >= 3 || self.r.chance(1, 2);
        if leaf {
            if !self.ext_types.is_empty() && self.r.chance(1, 6) {
                let (a, b) = self.r.pick(&self.ext_types).clone();
                return AType::Extern(a, b);
            }
            let n = if self.cfg.plain_types_only { 17 } else { 18 };
            return match self.r.below(n + if self.type_names.is_empty() { 0 } else { 6 }) {
                0 => AType::Bool,
                1 => AType::U8,
                2 => AType::I8,
                3 => AType::U16,
                4 => AType::I16,
                5 => AType::U32,
                6 => AType::I32,
                7 => AType::U64,
                8 => AType::I64,
                9 => AType::F32,
                10 => AType::F64,
                11 => AType::String,
                12 => AType::Uuid,
                13 => AType::ObjectId,
                14 => AType::ServiceId,
                15 => AType::Bytes,
                16 => AType::Unit,
                17 if !self.cfg.plain_types_only => AType::Lifetime,
                _ => AType::Named(self.r.pick(&self.type_names).clone()),
            };
        }
        let d = depth + 1;
        match self.r.below(if self.cfg.plain_types_only { 8 } else { 10 }) {
            0 => AType::Option(Box::new(self.ty(d))),
            1 => AType::Box(Box::new(self.ty(d))),
            2 => AType::Vec(Box::new(self.ty(d))),
            3 => {
                let k = self.key_ty();
                AType::Map(Box::new(k), Box::new(self.ty(d)))
            }
            4 => AType::Set(Box::new(self.key_ty())),
            5 => AType::Result(Box::new(self.ty(d)), Box::new(self.ty(d))),
            6 => {
                let len = if !self.const_ints.is_empty() && self.r.chance(1, 3) { ALen::Const(self.r.pick(&self.const_ints).clone()) } else { ALen::Lit(1 + self.r.below(4) as u32) };
                AType::Array(Box::new(self.ty(d)), len)
            }
            7 => AType::Value,
            8 => AType::Sender(Box::new(self.ty(d))),
            _ => AType::Receiver(Box::new(self.ty(d))),
        }
    }

    fn id(&mut self, used: &mut Vec<u32>) -> u32 {
        loop {
            let v = match self.r.below(6) {
                0 => self.r.below(4) as u32,
                1 => 250 + self.r.below(10) as u32,
                2 => 65530 + self.r.below(10) as u32,
                3 => u32::MAX - self.r.below(3) as u32,
                _ => self.r.below(64) as u32,
            };
            if !self.cfg.valid || !used.contains(&v) {
                used.push(v);
                return v;
            }
        }
    }

    fn fields(&mut self, max: usize) -> Vec<AField> {
        let mut names = Vec::new();
        let mut ids = Vec::new();
        let n = self.r.below(max + 1);
        (0..n)
            .map(|_| {
                let pre = self.prelude(false);
                let name = if self.cfg.valid { self.uniq_in(&mut names, true) } else { self.snake() };
                AField { pre, name, id: self.id(&mut ids), required: self.r.chance(1, 3), ty: self.ty(0) }
            })
            .collect()
    }

    fn variants(&mut self, max: usize) -> Vec<AVariant> {
        let mut names = Vec::new();
        let mut ids = Vec::new();
        let n = 1 + self.r.below(max);
        (0..n)
            .map(|_| {
                let pre = self.prelude(false);
                let name = if self.cfg.valid { self.uniq_in(&mut names, false) } else { let k = self.r.range(1, 2); camel(&self.words(k)) };
                AVariant { pre, name, id: self.id(&mut ids), ty: if self.r.bool() { Some(self.ty(0)) } else { None } }
            })
            .collect()
    }

    fn fallback(&mut self, snake: bool) -> Option<(Prelude, String)> {
        if self.r.chance(1, 3) {
            let p = self.prelude(false);
            Some((p, if snake { "unknown_fields".to_string() } else { "Unknown".to_string() }))
        } else {
            None
        }
    }

    fn part(&mut self) -> APart {
        match self.r.below(4) {
            0 => {
                let mut pre = Prelude::default();
                for _ in 0..self.r.below(2) {
                    let d = self.doc_text();
                    pre.docs.push(d);
                }
                if self.cfg.attrs && self.r.chance(1, 4) {
                    pre.attrs.push((self.snake(), vec![]));
                }
                APart::Struct(AStruct { pre, name: String::new(), fields: self.fields(3), fallback: self.fallback(true) })
            }
            1 => {
                let mut pre = Prelude::default();
                for _ in 0..self.r.below(2) {
                    let d = self.doc_text();
                    pre.docs.push(d);
                }
                APart::Enum(AEnum { pre, name: String::new(), variants: self.variants(3), fallback: self.fallback(false) })
            }
            _ => APart::Type(self.ty(0)),
        }
    }

    fn part_comments(&mut self) -> Vec<String> {
        if self.cfg.comments && self.r.chance(1, 4) {
            vec![self.doc_text()]
        } else {
            vec![]
        }
    }

    fn service(&mut self) -> AService {
        let pre = self.prelude(false);
        let name = self.fresh_type_name();
        let mut names = Vec::new();
        let mut fids = Vec::new();
        let mut eids = Vec::new();
        let n = self.r.below(6);
        let mut items = Vec::new();
        for _ in 0..n {
            let pre = self.prelude(false);
            let iname = if self.cfg.valid { self.uniq_in(&mut names, true) } else { self.snake() };
            if self.r.chance(2, 3) {
                let id = self.id(&mut fids);
                let short_ok = self.r.chance(1, 4);
                let (args, ok, err) = if short_ok {
                    (None, Some((vec![], self.part())), None)
                } else {
                    let a = if self.r.bool() { Some((self.part_comments(), self.part())) } else { None };
                    let o = if self.r.bool() { Some((self.part_comments(), self.part())) } else { None };
                    let e = if self.r.bool() { Some((self.part_comments(), self.part())) } else { None };
                    (a, o, e)
                };
                items.push(AItem::Fn { pre, name: iname, id, args, ok, err, short_ok });
            } else {
                let id = self.id(&mut eids);
                let ty = if self.r.bool() { Some(self.part()) } else { None };
                items.push(AItem::Event { pre, name: iname, id, ty });
            }
        }
        let fn_fallback = if self.r.chance(1, 4) { Some((self.prelude(false), "unknown_function".to_string())) } else { None };
        let ev_fallback = if self.r.chance(1, 4) { Some((self.prelude(false), "unknown_event".to_string())) } else { None };
        AService {
            pre,
            name,
            uuid: self.uuid(),
            uuid_comments: self.part_comments(),
            version: self.r.below(5) as u32,
            version_comments: self.part_comments(),
            items,
            fn_fallback,
            ev_fallback,
            ev_fallback_first: self.r.bool(),
        }
    }

    pub fn schema(&mut self, name: &str, importable: &[(String, Vec<String>)]) -> ASchema {
        let mut s = ASchema { name: name.to_string(), ..Default::default() };
        for _ in 0..self.r.below(3) {
            let c = if self.cfg.comments && self.r.bool() { vec![self.doc_text()] } else { vec![] };
            let d = self.doc_text();
            s.header.push((c, d));
        }
        let mut ext: Vec<(String, String)> = Vec::new();
        for (iname, types) in importable {
            if self.r.chance(2, 3) {
                let c = if self.cfg.comments && self.r.chance(1, 3) { vec![self.doc_text()] } else { vec![] };
                s.imports.push((c, iname.clone()));
                for t in types {
                    ext.push((iname.clone(), t.clone()));
                }
            }
        }
        self.ext_types = ext.clone();
        self.key_newtypes = self.ext_key_types.iter().filter(|(a, _)| s.imports.iter().any(|(_, i)| i == a)).map(|(a, b)| AType::Extern(a.clone(), b.clone())).collect();
        // the same schema may be imported twice (legal, warned about)
        if !s.imports.is_empty() && self.r.chance(1, 8) {
            let (_, again) = self.r.pick(&s.imports).clone();
            let c = if self.cfg.comments { vec![self.doc_text()] } else { vec![] };
            s.imports.push((c, again));
        }
        let ndefs = 1 + self.r.below(self.cfg.max_defs);
        // declare names first so that forward and recursive references are possible
        let mut kinds = Vec::new();
        for _ in 0..ndefs {
            let k = self.r.below(10);
            let name = match k {
                8 => {
                    let mut n = self.words(2).join("_").to_uppercase();
                    while self.used_names.contains(&n) {
                        n.push('X');
                    }
                    self.used_names.push(n.clone());
                    n
                }
                _ => self.fresh_type_name(),
            };
            kinds.push((k, name));
        }
        for (k, n) in &kinds {
            match k {
                0..=5 | 9 => self.type_names.push(n.clone()),
                _ => {}
            }
        }
        for (k, n) in kinds.clone() {
            let def = match k {
                0..=2 => {
                    let pre = self.prelude(true);
                    let mut fields = self.fields(5);
                    if !ext.is_empty() && self.r.chance(1, 3) && !fields.is_empty() {
                        let (a, b) = self.r.pick(&ext).clone();
                        fields[0].ty = AType::Option(Box::new(AType::Extern(a, b)));
                    }
                    ADef::Struct(AStruct { pre, name: n, fields, fallback: self.fallback(true) })
                }
                3..=5 => {
                    let pre = self.prelude(true);
                    let mut variants = self.variants(5);
                    let fallback = self.fallback(false);
                    // an enum made of nothing but its fallback variant is valid
                    if fallback.is_some() && self.r.chance(1, 5) {
                        variants.clear();
                    }
                    ADef::Enum(AEnum { pre, name: n, variants, fallback })
                }
                6 | 7 => {
                    let mut sv = self.service();
                    // the pre-declared name was reserved for this slot
                    sv.name = n;
                    ADef::Service(sv)
                }
                8 => {
                    let pre = self.prelude(false);
                    let value = match self.r.below(4) {
                        0 => {
                            if !self.cfg.valid && self.r.chance(1, 2) {
                                // escape codes the language does not have, next to multi-byte text
                                AConstValue::Str(self.r.pick(&["\\é", "a\\€b", "x\\🎉", "\\n", "ok\\\\ \\q", "é\\éz"]).to_string())
                            } else {
                                AConstValue::Str(self.doc_text().replace('\\', "\\\\").replace('"', "\\\"").replace(['\n', '\r'], " "))
                            }
                        }
                        1 => AConstValue::Uuid(self.uuid()),
                        _ => {
                            let kw = *self.r.pick(&["u8", "u16", "u32", "u64", "i8", "i16", "i32", "i64"]);
                            let v = 1 + self.r.below(5) as i128;
                            self.const_ints.push(n.clone());
                            AConstValue::Int(kw, v)
                        }
                    };
                    ADef::Const { pre, name: n, value }
                }
                _ => {
                    let pre = self.prelude(true);
                    // one in three: a newtype over a key type (possibly through other newtypes,
                    // possibly imported ones), usable as a map key or set element further down
                    let ty = if self.r.chance(1, 3) { self.key_ty() } else { self.ty(0) };
                    if self.is_key(&ty) {
                        self.key_newtypes.push(AType::Named(n.clone()));
                    }
                    ADef::Newtype { pre, name: n, ty }
                }
            };
            s.defs.push(def);
        }
        if self.cfg.valid {
            break_cycles(&mut s);
        }
        s
    }
}

// ---------------------------------------------------------------------------------------------
// Recursion check (valid mode): a type may only contain itself through option/box/vec/map/set/
// result indirection is NOT enough for the parser: it demands box. Be conservative: every
// reference that closes a cycle is wrapped into `box<...>`.
// ---------------------------------------------------------------------------------------------

fn direct_refs(t: &AType, out: &mut Vec<String>) {
    match t {
        AType::Named(n) => out.push(n.clone()),
        AType::Option(x) | AType::Array(x, _) => direct_refs(x, out),
        AType::Result(a, b) => {
            direct_refs(a, out);
            direct_refs(b, out);
        }
        // box, vec, map, set, sender, receiver are indirections
        _ => {}
    }
}

fn def_types(d: &ADef) -> Vec<&AType> {
    match d {
        ADef::Struct(s) => s.fields.iter().map(|f| &f.ty).collect(),
        ADef::Enum(e) => e.variants.iter().filter_map(|v| v.ty.as_ref()).collect(),
        ADef::Newtype { ty, .. } => vec![ty],
        _ => vec![],
    }
}

fn def_types_mut(d: &mut ADef) -> Vec<&mut AType> {
    match d {
        ADef::Struct(s) => s.fields.iter_mut().map(|f| &mut f.ty).collect(),
        ADef::Enum(e) => e.variants.iter_mut().filter_map(|v| v.ty.as_mut()).collect(),
        ADef::Newtype { ty, .. } => vec![ty],
        _ => vec![],
    }
}

fn box_named(t: &mut AType, target: &str) {
    match t {
        AType::Named(n) if n == target => {
            let inner = t.clone();
            *t = AType::Box(Box::new(inner));
        }
        AType::Option(x) | AType::Array(x, _) => box_named(x, target),
        AType::Result(a, b) => {
            box_named(a, target);
            box_named(b, target);
        }
        _ => {}
    }
}

pub fn break_cycles(s: &mut ASchema) {
    loop {
        // find a cycle in the "directly contains" graph
        let names: Vec<String> = s.defs.iter().map(|d| d.name().to_string()).collect();
        let edges: Vec<Vec<String>> = s
            .defs
            .iter()
            .map(|d| {
                let mut v = Vec::new();
                for t in def_types(d) {
                    direct_refs(t, &mut v);
                }
                v
            })
            .collect();
        let mut found: Option<(usize, String)> = None;
        'outer: for start in 0..names.len() {
            // dfs
            let mut stack = vec![(start, vec![start])];
            let mut seen = vec![false; names.len()];
            while let Some((cur, path)) = stack.pop() {
                for e in &edges[cur] {
                    if let Some(j) = names.iter().position(|n| n == e) {
                        if j == start {
                            found = Some((cur, e.clone()));
                            break 'outer;
                        }
                        if !seen[j] {
                            seen[j] = true;
                            let mut p = path.clone();
                            p.push(j);
                            stack.push((j, p));
                        }
                    }
                }
            }
        }
        match found {
            Some((i, target)) => {
                for t in def_types_mut(&mut s.defs[i]) {
                    box_named(t, &target);
                }
            }
            None => break,
        }
    }
}

// ---------------------------------------------------------------------------------------------
// Rendering with arbitrary legal layout
// ---------------------------------------------------------------------------------------------

pub struct Layout<'a> {
    pub r: &'a mut Rng,
    /// 0 = canonical single spaces / newlines, higher = wilder
    pub wild: u32,
}

impl Layout<'_> {
    fn sp(&mut self, out: &mut String) {
        if self.wild == 0 {
            out.push(' ');
            return;
        }
        match self.r.below(10) {
            0 => out.push_str("  "),
            1 => out.push('\t'),
            2 => out.push('\n'),
            3 => out.push_str("\r\n"),
            4 => out.push_str(" \n  "),
            _ => out.push(' '),
        }
    }
    /// optional whitespace
    fn osp(&mut self, out: &mut String) {
        if self.wild == 0 {
            return;
        }
        match self.r.below(8) {
            0 => out.push(' '),
            1 => out.push('\n'),
            2 => out.push_str("  "),
            _ => {}
        }
    }
    fn nl(&mut self, out: &mut String) {
        if self.wild > 0 && self.r.chance(1, 6) {
            out.push_str("\r\n");
        } else {
            out.push('\n');
        }
        if self.wild > 0 {
            for _ in 0..self.r.below(3) {
                match self.r.below(3) {
                    0 => out.push('\n'),
                    1 => out.push_str("    "),
                    _ => out.push(' '),
                }
            }
        }
    }
    fn line(&mut self, out: &mut String, marker: &str, text: &str) {
        self.osp(out);
        out.push_str(marker);
        if !text.is_empty() {
            if !(self.wild > 0 && self.r.chance(1, 5)) {
                out.push(' ');
            }
            out.push_str(text);
        }
        self.nl(out);
    }
    fn prelude(&mut self, out: &mut String, p: &Prelude, inline: bool) {
        // comments, docs and attributes may interleave for definitions; keep the relative order
        // of each class (that is what the AST records)
        let mut items: Vec<(u8, usize)> = Vec::new();
        items.extend((0..p.comments.len()).map(|i| (0u8, i)));
        items.extend((0..p.docs.len()).map(|i| (1u8, i)));
        items.extend((0..p.attrs.len()).map(|i| (2u8, i)));
        if self.wild > 1 && !inline {
            // interleave while keeping per-class order
            let mut res: Vec<(u8, usize)> = Vec::new();
            let mut idx = [0usize; 3];
            let lens = [p.comments.len(), p.docs.len(), p.attrs.len()];
            while res.len() < items.len() {
                let k = self.r.below(3);
                if idx[k] < lens[k] {
                    res.push((k as u8, idx[k]));
                    idx[k] += 1;
                }
            }
            items = res;
        }
        for (k, i) in items {
            match k {
                0 => self.line(out, "//", &p.comments[i]),
                1 => self.line(out, if inline { "//!" } else { "///" }, &p.docs[i]),
                _ => {
                    let (n, opts) = &p.attrs[i];
                    self.osp(out);
                    out.push_str(if inline { "#![" } else { "#[" });
                    self.osp(out);
                    out.push_str(n);
                    if !opts.is_empty() || (self.wild > 0 && self.r.chance(1, 8)) {
                        if !opts.is_empty() {
                            out.push('(');
                            for (j, o) in opts.iter().enumerate() {
                                if j > 0 {
                                    out.push(',');
                                }
                                self.osp(out);
                                out.push_str(o);
                            }
                            if self.wild > 0 && self.r.chance(1, 4) {
                                out.push(',');
                            }
                            out.push(')');
                        }
                    }
                    self.osp(out);
                    out.push(']');
                    self.nl(out);
                }
            }
        }
    }

    pub fn ty(&mut self, out: &mut String, t: &AType) {
        let simple = |s: &str, out: &mut String| out.push_str(s);
        match t {
            AType::Bool => simple("bool", out),
            AType::U8 => simple("u8", out),
            AType::I8 => simple("i8", out),
            AType::U16 => simple("u16", out),
            AType::I16 => simple("i16", out),
            AType::U32 => simple("u32", out),
            AType::I32 => simple("i32", out),
            AType::U64 => simple("u64", out),
            AType::I64 => simple("i64", out),
            AType::F32 => simple("f32", out),
            AType::F64 => simple("f64", out),
            AType::String => simple("string", out),
            AType::Uuid => simple("uuid", out),
            AType::ObjectId => simple("object_id", out),
            AType::ServiceId => simple("service_id", out),
            AType::Value => simple("value", out),
            AType::Bytes => simple("bytes", out),
            AType::Lifetime => simple("lifetime", out),
            AType::Unit => simple("unit", out),
            AType::Named(n) => simple(n, out),
            AType::Extern(a, b) => {
                out.push_str(a);
                self.osp(out);
                out.push_str("::");
                self.osp(out);
                out.push_str(b);
            }
            AType::Option(x) | AType::Box(x) | AType::Vec(x) | AType::Set(x) | AType::Sender(x) | AType::Receiver(x) => {
                out.push_str(match t {
                    AType::Option(_) => "option",
                    AType::Box(_) => "box",
                    AType::Vec(_) => "vec",
                    AType::Set(_) => "set",
                    AType::Sender(_) => "sender",
                    _ => "receiver",
                });
                self.osp(out);
                out.push('<');
                self.osp(out);
                self.ty(out, x);
                self.osp(out);
                out.push('>');
            }
            AType::Map(k, v) => {
                out.push_str("map");
                self.osp(out);
                out.push('<');
                self.osp(out);
                self.ty(out, k);
                self.osp(out);
                out.push_str("->");
                self.osp(out);
                self.ty(out, v);
                self.osp(out);
                out.push('>');
            }
            AType::Result(a, b) => {
                out.push_str("result");
                self.osp(out);
                out.push('<');
                self.osp(out);
                self.ty(out, a);
                self.osp(out);
                out.push(',');
                self.osp(out);
                self.ty(out, b);
                self.osp(out);
                out.push('>');
            }
            AType::Array(x, len) => {
                out.push('[');
                self.osp(out);
                self.ty(out, x);
                self.osp(out);
                out.push(';');
                self.osp(out);
                match len {
                    ALen::Lit(n) => out.push_str(&n.to_string()),
                    ALen::Const(c) => out.push_str(c),
                }
                self.osp(out);
                out.push(']');
            }
        }
    }

    fn fields(&mut self, out: &mut String, fields: &[AField], fallback: &Option<(Prelude, String)>) {
        for f in fields {
            self.prelude(out, &f.pre, false);
            self.osp(out);
            if f.required {
                out.push_str("required");
                self.sp(out);
            }
            out.push_str(&f.name);
            self.osp(out);
            out.push('@');
            self.osp(out);
            out.push_str(&f.id.to_string());
            self.osp(out);
            out.push('=');
            self.osp(out);
            self.ty(out, &f.ty);
            self.osp(out);
            out.push(';');
            self.nl(out);
        }
        if let Some((p, n)) = fallback {
            self.prelude(out, p, false);
            self.osp(out);
            out.push_str(n);
            self.osp(out);
            out.push('=');
            self.osp(out);
            out.push_str("fallback");
            self.osp(out);
            out.push(';');
            self.nl(out);
        }
    }

    fn variants(&mut self, out: &mut String, vs: &[AVariant], fallback: &Option<(Prelude, String)>) {
        for v in vs {
            self.prelude(out, &v.pre, false);
            self.osp(out);
            out.push_str(&v.name);
            self.osp(out);
            out.push('@');
            self.osp(out);
            out.push_str(&v.id.to_string());
            if let Some(t) = &v.ty {
                self.osp(out);
                out.push('=');
                self.osp(out);
                self.ty(out, t);
            }
            self.osp(out);
            out.push(';');
            self.nl(out);
        }
        if let Some((p, n)) = fallback {
            self.prelude(out, p, false);
            self.osp(out);
            out.push_str(n);
            self.osp(out);
            out.push('=');
            self.osp(out);
            out.push_str("fallback");
            self.osp(out);
            out.push(';');
            self.nl(out);
        }
    }

    fn part(&mut self, out: &mut String, p: &APart) {
        match p {
            APart::Type(t) => {
                self.ty(out, t);
                self.osp(out);
                out.push(';');
            }
            APart::Struct(s) => {
                out.push_str("struct");
                self.sp(out);
                out.push('{');
                self.nl(out);
                self.prelude(out, &s.pre, true);
                self.fields(out, &s.fields, &s.fallback);
                self.osp(out);
                out.push('}');
            }
            APart::Enum(e) => {
                out.push_str("enum");
                self.sp(out);
                out.push('{');
                self.nl(out);
                self.prelude(out, &e.pre, true);
                self.variants(out, &e.variants, &e.fallback);
                self.osp(out);
                out.push('}');
            }
        }
    }

    fn fb(&mut self, out: &mut String, kw: &str, f: &Option<(Prelude, String)>) {
        if let Some((p, n)) = f {
            self.prelude(out, p, false);
            self.osp(out);
            out.push_str(kw);
            self.sp(out);
            out.push_str(n);
            self.osp(out);
            out.push('=');
            self.osp(out);
            out.push_str("fallback");
            self.osp(out);
            out.push(';');
            self.nl(out);
        }
    }

    pub fn render(&mut self, s: &ASchema) -> String {
        let mut out = String::new();
        for (c, d) in &s.header {
            for x in c {
                self.line(&mut out, "//", x);
            }
            self.line(&mut out, "//!", d);
        }
        for (c, i) in &s.imports {
            for x in c {
                self.line(&mut out, "//", x);
            }
            self.osp(&mut out);
            out.push_str("import");
            self.sp(&mut out);
            out.push_str(i);
            self.osp(&mut out);
            out.push(';');
            self.nl(&mut out);
        }
        for d in &s.defs {
            match d {
                ADef::Struct(st) => {
                    self.prelude(&mut out, &st.pre, false);
                    self.osp(&mut out);
                    out.push_str("struct");
                    self.sp(&mut out);
                    out.push_str(&st.name);
                    self.osp(&mut out);
                    out.push('{');
                    self.nl(&mut out);
                    self.fields(&mut out, &st.fields, &st.fallback);
                    self.osp(&mut out);
                    out.push('}');
                    self.nl(&mut out);
                }
                ADef::Enum(e) => {
                    self.prelude(&mut out, &e.pre, false);
                    self.osp(&mut out);
                    out.push_str("enum");
                    self.sp(&mut out);
                    out.push_str(&e.name);
                    self.osp(&mut out);
                    out.push('{');
                    self.nl(&mut out);
                    self.variants(&mut out, &e.variants, &e.fallback);
                    self.osp(&mut out);
                    out.push('}');
                    self.nl(&mut out);
                }
                ADef::Const { pre, name, value } => {
                    self.prelude(&mut out, pre, false);
                    self.osp(&mut out);
                    out.push_str("const");
                    self.sp(&mut out);
                    out.push_str(name);
                    self.osp(&mut out);
                    out.push('=');
                    self.osp(&mut out);
                    match value {
                        AConstValue::Int(kw, v) => out.push_str(&format!("{}({})", kw, v)),
                        AConstValue::Str(s) => out.push_str(&format!("string(\"{}\")", s)),
                        AConstValue::Uuid(u) => out.push_str(&format!("uuid({})", u)),
                    }
                    self.osp(&mut out);
                    out.push(';');
                    self.nl(&mut out);
                }
                ADef::Newtype { pre, name, ty } => {
                    self.prelude(&mut out, pre, false);
                    self.osp(&mut out);
                    out.push_str("newtype");
                    self.sp(&mut out);
                    out.push_str(name);
                    self.osp(&mut out);
                    out.push('=');
                    self.osp(&mut out);
                    self.ty(&mut out, ty);
                    self.osp(&mut out);
                    out.push(';');
                    self.nl(&mut out);
                }
                ADef::Service(sv) => {
                    self.prelude(&mut out, &sv.pre, false);
                    self.osp(&mut out);
                    out.push_str("service");
                    self.sp(&mut out);
                    out.push_str(&sv.name);
                    self.osp(&mut out);
                    out.push('{');
                    self.nl(&mut out);
                    for c in &sv.uuid_comments {
                        self.line(&mut out, "//", c);
                    }
                    self.osp(&mut out);
                    out.push_str("uuid");
                    self.osp(&mut out);
                    out.push('=');
                    self.osp(&mut out);
                    out.push_str(&sv.uuid);
                    self.osp(&mut out);
                    out.push(';');
                    self.nl(&mut out);
                    for c in &sv.version_comments {
                        self.line(&mut out, "//", c);
                    }
                    self.osp(&mut out);
                    out.push_str("version");
                    self.osp(&mut out);
                    out.push('=');
                    self.osp(&mut out);
                    out.push_str(&sv.version.to_string());
                    self.osp(&mut out);
                    out.push(';');
                    self.nl(&mut out);
                    for it in &sv.items {
                        match it {
                            AItem::Fn { pre, name, id, args, ok, err, short_ok } => {
                                self.prelude(&mut out, pre, false);
                                self.osp(&mut out);
                                out.push_str("fn");
                                self.sp(&mut out);
                                out.push_str(name);
                                self.osp(&mut out);
                                out.push('@');
                                self.osp(&mut out);
                                out.push_str(&id.to_string());
                                if *short_ok {
                                    self.osp(&mut out);
                                    out.push('=');
                                    self.osp(&mut out);
                                    self.part(&mut out, &ok.as_ref().unwrap().1);
                                    self.nl(&mut out);
                                } else if args.is_none() && ok.is_none() && err.is_none() && !(self.wild > 0 && self.r.chance(1, 3)) {
                                    self.osp(&mut out);
                                    out.push(';');
                                    self.nl(&mut out);
                                } else {
                                    self.osp(&mut out);
                                    out.push('{');
                                    self.nl(&mut out);
                                    for (kw, p) in [("args", args), ("ok", ok), ("err", err)] {
                                        if let Some((c, p)) = p {
                                            for x in c {
                                                self.line(&mut out, "//", x);
                                            }
                                            self.osp(&mut out);
                                            out.push_str(kw);
                                            self.osp(&mut out);
                                            out.push('=');
                                            self.osp(&mut out);
                                            self.part(&mut out, p);
                                            self.nl(&mut out);
                                        }
                                    }
                                    self.osp(&mut out);
                                    out.push('}');
                                    self.nl(&mut out);
                                }
                            }
                            AItem::Event { pre, name, id, ty } => {
                                self.prelude(&mut out, pre, false);
                                self.osp(&mut out);
                                out.push_str("event");
                                self.sp(&mut out);
                                out.push_str(name);
                                self.osp(&mut out);
                                out.push('@');
                                self.osp(&mut out);
                                out.push_str(&id.to_string());
                                match ty {
                                    Some(p) => {
                                        self.osp(&mut out);
                                        out.push('=');
                                        self.osp(&mut out);
                                        self.part(&mut out, p);
                                    }
                                    None => {
                                        self.osp(&mut out);
                                        out.push(';');
                                    }
                                }
                                self.nl(&mut out);
                            }
                        }
                    }
                    if sv.ev_fallback_first {
                        self.fb(&mut out, "event", &sv.ev_fallback);
                        self.fb(&mut out, "fn", &sv.fn_fallback);
                    } else {
                        self.fb(&mut out, "fn", &sv.fn_fallback);
                        self.fb(&mut out, "event", &sv.ev_fallback);
                    }
                    self.osp(&mut out);
                    out.push('}');
                    self.nl(&mut out);
                }
            }
        }
        out
    }
}
