//! Reference conformance relation "dynamic value ⊨ schema type": generates conforming values for
//! a schema type (optional fields absent / None / Some, unknown ids added), the normal form a
//! decode/encode cycle through the generated type must yield, and systematic non-conforming
//! mutants.

use super::gen::*;
use crate::codec::rv::{self, Key, KeyKind, RV};
use crate::prng::Rng;

pub struct Env<'a> {
    pub schema: &'a ASchema,
    /// every schema that can be imported (by name)
    pub world: &'a [&'a ASchema],
}

impl<'a> Env<'a> {
    pub fn def(&self, name: &str) -> Option<&'a ADef> {
        self.schema.defs.iter().find(|d| d.name() == name)
    }
    /// definition `schema::name` together with the environment its own references resolve in
    pub fn ext(&self, schema: &str, name: &str) -> Option<(Env<'a>, &'a ADef)> {
        let s = self.world.iter().find(|s| s.name == schema)?;
        let env = Env { schema: s, world: self.world };
        let d = env.def(name)?;
        Some((env, d))
    }
    fn const_int(&self, name: &str) -> Option<u32> {
        match self.def(name)? {
            ADef::Const { value: AConstValue::Int(_, v), .. } => Some(*v as u32),
            _ => None,
        }
    }
    pub fn array_len(&self, l: &ALen) -> Option<u32> {
        match l {
            ALen::Lit(n) => Some(*n),
            ALen::Const(c) => self.const_int(c),
        }
    }
}

/// Whether `t` is legal as a map key / set element in `env`.
pub fn resolves_to_key(env: &Env, t: &AType) -> bool {
    key_kind(env, t).is_some()
}

fn key_kind(env: &Env, t: &AType) -> Option<KeyKind> {
    // newtypes over key types (own or imported, any chain length) are keys themselves
    let mut hops = 0;
    let mut cur_env = Env { schema: env.schema, world: env.world };
    let mut t = t.clone();
    loop {
        let next = match &t {
            AType::Named(n) => match cur_env.def(n)? {
                ADef::Newtype { ty, .. } => (Env { schema: cur_env.schema, world: cur_env.world }, ty.clone()),
                _ => return None,
            },
            AType::Extern(s, n) => match cur_env.ext(s, n)? {
                (e2, ADef::Newtype { ty, .. }) => (e2, ty.clone()),
                _ => return None,
            },
            _ => break,
        };
        cur_env = next.0;
        t = next.1;
        hops += 1;
        if hops > 32 {
            return None;
        }
    }
    Some(match &t {
        AType::U8 => KeyKind::U8,
        AType::I8 => KeyKind::I8,
        AType::U16 => KeyKind::U16,
        AType::I16 => KeyKind::I16,
        AType::U32 => KeyKind::U32,
        AType::I32 => KeyKind::I32,
        AType::U64 => KeyKind::U64,
        AType::I64 => KeyKind::I64,
        AType::String => KeyKind::Str,
        AType::Uuid => KeyKind::Uuid,
        _ => return None,
    })
}

fn text(r: &mut Rng) -> Vec<u8> {
    let pool = ["", "a", "hello", "äöü", "漢字", "with space", "🎉"];
    r.pick(&pool).as_bytes().to_vec()
}

fn uuid16(r: &mut Rng) -> [u8; 16] {
    let mut b = [0u8; 16];
    r.fill(&mut b);
    b
}

pub fn conforming(env: &Env, t: &AType, r: &mut Rng, depth: usize) -> Option<RV> {
    if depth > 7 {
        return None;
    }
    Some(match t {
        AType::Bool => RV::Bool(r.bool()),
        AType::U8 => RV::U8(*r.pick(&[0u8, 1, 127, 255])),
        AType::I8 => RV::I8(*r.pick(&[0i8, -1, 127, -128])),
        AType::U16 => RV::U16(*r.pick(&[0u16, 253, 254, 65535])),
        AType::I16 => RV::I16(*r.pick(&[0i16, -127, 127, i16::MIN, i16::MAX])),
        AType::U32 => RV::U32(*r.pick(&[0u32, 251, 252, 65536, u32::MAX])),
        AType::I32 => RV::I32(*r.pick(&[0i32, -126, 126, i32::MIN, i32::MAX])),
        AType::U64 => RV::U64(*r.pick(&[0u64, 247, 248, 1 << 32, u64::MAX])),
        AType::I64 => RV::I64(*r.pick(&[0i64, -124, 124, i64::MIN, i64::MAX])),
        AType::F32 => RV::F32(*r.pick(&[0u32, 0x3f80_0000, 0x7fc0_0001, 0xffc0_0000, 0x8000_0000])),
        AType::F64 => RV::F64(*r.pick(&[0u64, 0x3ff0_0000_0000_0000, 0x7ff8_0000_0000_0001, 0x8000_0000_0000_0000])),
        AType::String => RV::Str(text(r)),
        AType::Uuid => RV::Uuid(uuid16(r)),
        AType::ObjectId => {
            let mut b = [0u8; 32];
            r.fill(&mut b);
            RV::ObjectId(b)
        }
        AType::ServiceId => {
            let mut b = [0u8; 64];
            r.fill(&mut b);
            RV::ServiceId(b)
        }
        AType::Value => {
            let mut budget = 6;
            let d = 1 + r.below(3);
            rv::gen_value(r, d, &mut budget)
        }
        AType::Bytes => {
            let n = r.below(6);
            RV::Bytes(r.bytes(n))
        }
        AType::Lifetime => {
            let mut b = [0u8; 32];
            r.fill(&mut b);
            RV::ObjectId(b)
        }
        AType::Unit => RV::None,
        AType::Option(x) => {
            if r.chance(1, 3) || depth > 5 {
                RV::None
            } else {
                RV::Some(Box::new(conforming(env, x, r, depth + 1)?))
            }
        }
        AType::Box(x) => conforming(env, x, r, depth + 1)?,
        // the language treats `vec<u8>` as a byte string (the code generator maps it to `Bytes`,
        // whose wire kind and introspection are those of `bytes`), not as a sequence of u8 values
        AType::Vec(x) if **x == AType::U8 => {
            let n = r.below(6);
            RV::Bytes(r.bytes(n))
        }
        AType::Vec(x) => {
            let n = if depth > 4 { 0 } else { r.below(3) };
            let mut v = Vec::new();
            for _ in 0..n {
                v.push(conforming(env, x, r, depth + 1)?);
            }
            RV::Vec(v)
        }
        AType::Array(x, len) => {
            let n = env.array_len(len)?;
            let mut v = Vec::new();
            for _ in 0..n {
                v.push(conforming(env, x, r, depth + 1)?);
            }
            RV::Vec(v)
        }
        AType::Map(k, x) => {
            let kk = key_kind(env, k)?;
            let n = if depth > 4 { 0 } else { r.below(3) };
            let mut entries: Vec<(Key, RV)> = Vec::new();
            for _ in 0..n {
                let key = rv::gen_key(r, kk);
                if entries.iter().any(|(e, _)| *e == key) {
                    continue;
                }
                entries.push((key, conforming(env, x, r, depth + 1)?));
            }
            RV::Map(kk, entries)
        }
        AType::Set(k) => {
            let kk = key_kind(env, k)?;
            let mut keys: Vec<Key> = Vec::new();
            for _ in 0..r.below(3) {
                let key = rv::gen_key(r, kk);
                if !keys.contains(&key) {
                    keys.push(key);
                }
            }
            RV::Set(kk, keys)
        }
        AType::Sender(_) => RV::Sender(uuid16(r)),
        AType::Receiver(_) => RV::Receiver(uuid16(r)),
        AType::Result(a, b) => {
            if r.bool() {
                RV::Enum(0, Box::new(conforming(env, a, r, depth + 1)?))
            } else {
                RV::Enum(1, Box::new(conforming(env, b, r, depth + 1)?))
            }
        }
        AType::Named(n) => conforming_def(env, env.def(n)?, r, depth + 1, true)?,
        AType::Extern(s, n) => {
            let (e2, d) = env.ext(s, n)?;
            conforming_def(&e2, d, r, depth + 1, true)?
        }
    })
}

/// `extras`: also add ids the schema does not know.
pub fn conforming_def(env: &Env, d: &ADef, r: &mut Rng, depth: usize, extras: bool) -> Option<RV> {
    match d {
        ADef::Struct(s) => conforming_struct(env, &s.fields, r, depth, extras),
        ADef::Enum(e) => conforming_enum(env, &e.variants, e.fallback.is_some(), r, depth, extras),
        ADef::Newtype { ty, .. } => conforming(env, ty, r, depth),
        _ => None,
    }
}

pub fn conforming_struct(env: &Env, fields: &[AField], r: &mut Rng, depth: usize, extras: bool) -> Option<RV> {
    let mut out: Vec<(u32, RV)> = Vec::new();
    for f in fields {
        if f.required {
            out.push((f.id, conforming(env, &f.ty, r, depth + 1)?));
        } else {
            match if depth > 4 { 0 } else { r.below(4) } {
                0 => {}
                1 => out.push((f.id, RV::None)),
                _ => match conforming(env, &f.ty, r, depth + 1) {
                    Some(v) => out.push((f.id, RV::Some(Box::new(v)))),
                    None => {}
                },
            }
        }
    }
    if extras && r.chance(1, 2) {
        for _ in 0..(1 + r.below(2)) {
            let mut id = 1000 + r.below(50) as u32;
            while fields.iter().any(|f| f.id == id) || out.iter().any(|(i, _)| *i == id) {
                id += 1;
            }
            let v = match r.below(4) {
                0 => RV::None,
                1 => RV::Some(Box::new(RV::U8(7))),
                2 => RV::Str(b"newer".to_vec()),
                _ => RV::Vec(vec![RV::U16(1), RV::None]),
            };
            out.push((id, v));
        }
    }
    r.shuffle(&mut out);
    Some(RV::Struct(out))
}

pub fn conforming_enum(env: &Env, variants: &[AVariant], fallback: bool, r: &mut Rng, depth: usize, extras: bool) -> Option<RV> {
    if fallback && extras && r.chance(1, 4) {
        let mut id = 2000 + r.below(20) as u32;
        while variants.iter().any(|v| v.id == id) {
            id += 1;
        }
        let v = if r.bool() { RV::None } else { RV::Str(b"newer variant".to_vec()) };
        return Some(RV::Enum(id, Box::new(v)));
    }
    // prefer variants that terminate
    let order: Vec<usize> = {
        let mut o: Vec<usize> = (0..variants.len()).collect();
        r.shuffle(&mut o);
        o
    };
    for i in order {
        let v = &variants[i];
        match &v.ty {
            None => return Some(RV::Enum(v.id, Box::new(RV::None))),
            Some(t) => {
                if let Some(x) = conforming(env, t, r, depth + 1) {
                    return Some(RV::Enum(v.id, Box::new(x)));
                }
            }
        }
    }
    None
}

/// What decoding into the generated type and encoding again must produce (up to the order of
/// struct fields, map entries and set elements).
pub fn normal_form(env: &Env, t: &AType, v: &RV) -> RV {
    match (t, v) {
        (AType::Option(x), RV::Some(i)) => RV::Some(Box::new(normal_form(env, x, i))),
        (AType::Box(x), _) => normal_form(env, x, v),
        (AType::Vec(x), RV::Vec(items)) | (AType::Array(x, _), RV::Vec(items)) => RV::Vec(items.iter().map(|i| normal_form(env, x, i)).collect()),
        (AType::Map(_, x), RV::Map(kk, entries)) => RV::Map(*kk, entries.iter().map(|(k, i)| (k.clone(), normal_form(env, x, i))).collect()),
        (AType::Result(a, b), RV::Enum(id, i)) => RV::Enum(*id, Box::new(normal_form(env, if *id == 0 { a } else { b }, i))),
        (AType::Named(n), _) => match env.def(n) {
            Some(d) => normal_form_def(env, d, v),
            None => v.clone(),
        },
        (AType::Extern(s, n), _) => match env.ext(s, n) {
            Some((e2, d)) => normal_form_def(&e2, d, v),
            None => v.clone(),
        },
        _ => v.clone(),
    }
}

pub fn normal_form_def(env: &Env, d: &ADef, v: &RV) -> RV {
    match (d, v) {
        (ADef::Struct(s), RV::Struct(fields)) => {
            let mut out = Vec::new();
            for (id, val) in fields {
                match s.fields.iter().find(|f| f.id == *id) {
                    Some(f) if f.required => out.push((*id, normal_form(env, &f.ty, val))),
                    Some(f) => match val {
                        RV::None => {}
                        RV::Some(i) => out.push((*id, RV::Some(Box::new(normal_form(env, &f.ty, i))))),
                        other => out.push((*id, other.clone())),
                    },
                    None => {
                        if s.fallback.is_some() {
                            out.push((*id, val.clone()));
                        }
                    }
                }
            }
            RV::Struct(out)
        }
        (ADef::Enum(e), RV::Enum(id, val)) => match e.variants.iter().find(|x| x.id == *id) {
            Some(var) => match &var.ty {
                Some(t) => RV::Enum(*id, Box::new(normal_form(env, t, val))),
                None => RV::Enum(*id, Box::new(RV::None)),
            },
            None => v.clone(),
        },
        (ADef::Newtype { ty, .. }, _) => normal_form(env, ty, v),
        _ => v.clone(),
    }
}

/// A value of a kind that `t` can never accept, if such a kind exists.
fn wrong_kind(env: &Env, t: &AType) -> Option<RV> {
    match t {
        AType::Value | AType::Unit | AType::Option(_) => None,
        AType::Extern(s, n) => match env.ext(s, n)? {
            (e2, ADef::Newtype { ty, .. }) => wrong_kind(&e2, ty),
            _ => Some(RV::ObjectId([3; 32])),
        },
        AType::Box(x) => wrong_kind(env, x),
        AType::ObjectId | AType::Lifetime => Some(RV::Bool(true)),
        AType::Named(n) => match env.def(n)? {
            ADef::Newtype { ty, .. } => wrong_kind(env, ty),
            _ => Some(RV::ObjectId([3; 32])),
        },
        _ => Some(RV::ObjectId([3; 32])),
    }
}

/// Systematic non-conforming variants of a conforming value of definition `d`.
pub fn mutants(env: &Env, d: &ADef, v: &RV, r: &mut Rng) -> Vec<(String, RV)> {
    let mut out = Vec::new();
    match (d, v) {
        (ADef::Struct(s), RV::Struct(fields)) => {
            for f in s.fields.iter().filter(|f| f.required) {
                let m: Vec<(u32, RV)> = fields.iter().filter(|(id, _)| *id != f.id).cloned().collect();
                out.push((format!("required field {} missing", f.id), RV::Struct(m)));
            }
            for f in &s.fields {
                let Some(w) = wrong_kind(env, &f.ty) else { continue };
                let w = if f.required { w } else { RV::Some(Box::new(w)) };
                let mut m: Vec<(u32, RV)> = fields.iter().filter(|(id, _)| *id != f.id).cloned().collect();
                m.push((f.id, w));
                out.push((format!("field {} of the wrong kind", f.id), RV::Struct(m)));
            }
            // wrong array length
            for f in &s.fields {
                let (AType::Array(x, len), true) = (&f.ty, f.required) else { continue };
                let Some(n) = env.array_len(len) else { continue };
                let mut items = Vec::new();
                let mut ok = true;
                for _ in 0..(n + 1) {
                    match conforming(env, x, r, 3) {
                        Some(i) => items.push(i),
                        None => ok = false,
                    }
                }
                if ok {
                    let mut m: Vec<(u32, RV)> = fields.iter().filter(|(id, _)| *id != f.id).cloned().collect();
                    m.push((f.id, RV::Vec(items)));
                    out.push((format!("array field {} with {} elements instead of {}", f.id, n + 1, n), RV::Struct(m)));
                }
            }
            out.push(("not a struct".into(), RV::U8(1)));
        }
        (ADef::Enum(e), RV::Enum(_, _)) => {
            if e.fallback.is_none() {
                let mut id = 3000u32;
                while e.variants.iter().any(|x| x.id == id) {
                    id += 1;
                }
                out.push((format!("unknown variant {} without fallback", id), RV::Enum(id, Box::new(RV::None))));
            }
            for var in &e.variants {
                if let Some(t) = &var.ty {
                    if let Some(w) = wrong_kind(env, t) {
                        out.push((format!("variant {} with a payload of the wrong kind", var.id), RV::Enum(var.id, Box::new(w))));
                    }
                } else {
                    // a variant without a type carries the unit value and nothing else
                    let w = if r.bool() { RV::I32(7) } else { RV::Struct(vec![(0, RV::U8(1))]) };
                    out.push((format!("unit variant {} with a payload", var.id), RV::Enum(var.id, Box::new(w))));
                }
            }
            out.push(("not an enum".into(), RV::Str(b"x".to_vec())));
        }
        (ADef::Newtype { ty, .. }, _) => {
            if let Some(w) = wrong_kind(env, ty) {
                out.push(("newtype target of the wrong kind".into(), w));
            }
        }
        _ => {}
    }
    out
}
