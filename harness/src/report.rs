//! Outcome accounting shared by every check: evaluations, distinct non-trivial cases, samples,
//! observations, violations (with signature for known-findings matching) and inconclusive notes.

use serde_json::{json, Map, Value as J};
use std::collections::{BTreeMap, BTreeSet, HashSet};

#[derive(Clone, Copy, Debug, PartialEq, Eq)]
pub enum Tier {
    Quick,
    Thorough,
}

impl Tier {
    pub fn name(self) -> &'static str {
        match self {
            Tier::Quick => "quick",
            Tier::Thorough => "thorough",
        }
    }
}

#[derive(Clone, Debug)]
pub struct Ctx {
    pub id: String,
    pub tier: Tier,
    pub seed: u64,
    pub shard: usize,
    pub nshards: usize,
    /// volume multiplier (1.0 = tier default); used by sanitizer slices (miri: tiny)
    pub scale: f64,
    /// free-form mode switch ("" = native). Sanitizer slices pass "miri" / "asan".
    pub mode: String,
}

impl Ctx {
    /// Scales a per-run total to this shard.
    pub fn share(&self, total: u64) -> u64 {
        let t = ((total as f64) * self.scale).ceil() as u64;
        let base = t / self.nshards as u64;
        let extra = if (self.shard as u64) < t % self.nshards as u64 { 1 } else { 0 };
        base + extra
    }
    pub fn rng(&self, stream: u64) -> crate::prng::Rng {
        crate::prng::Rng::derive(self.seed, self.shard as u64 + 1, stream)
    }
}

#[derive(Clone, Debug)]
pub struct Violation {
    /// narrow class key: input class + call site + symptom; matched against known_findings.json
    pub signature: String,
    pub detail: String,
    pub replay: J,
}

#[derive(Default, Debug)]
pub struct Outcome {
    pub evaluations: u64,
    pub distinct: HashSet<u64>,
    pub samples: Vec<J>,
    pub violations: Vec<Violation>,
    pub inconclusive: Vec<String>,
    pub counters: BTreeMap<String, u64>,
    pub maxima: BTreeMap<String, u64>,
    pub sets: BTreeMap<String, BTreeSet<String>>,
}

pub const MAX_SAMPLES: usize = 6;
pub const MAX_VIOLATIONS_KEPT: usize = 40;

impl Outcome {
    pub fn eval(&mut self) {
        self.evaluations += 1;
    }
    pub fn distinct_case(&mut self, hash: u64) {
        self.distinct.insert(hash);
    }
    pub fn sample(&mut self, s: J) {
        if self.samples.len() < MAX_SAMPLES {
            self.samples.push(s);
        }
    }
    pub fn count(&mut self, key: &str, n: u64) {
        *self.counters.entry(key.to_string()).or_insert(0) += n;
    }
    pub fn max(&mut self, key: &str, v: u64) {
        let e = self.maxima.entry(key.to_string()).or_insert(0);
        if v > *e {
            *e = v;
        }
    }
    pub fn seen(&mut self, set: &str, item: impl Into<String>) {
        self.sets.entry(set.to_string()).or_default().insert(item.into());
    }
    pub fn violation(&mut self, signature: impl Into<String>, detail: impl Into<String>, replay: J) {
        let signature = signature.into();
        let detail: String = detail.into();
        // a panic raised in the harness's own sources (paths relative to the harness crate;
        // the subject's are absolute) is a harness error: inconclusive, never a violation
        if signature.starts_with("panic") && detail.contains(" @ src/") {
            self.count("harness_panics", 1);
            self.inconclusive(format!("harness panic (not the subject): {}", detail.chars().take(300).collect::<String>()));
            return;
        }
        // keep the first few per signature, count the rest
        let same = self.violations.iter().filter(|v| v.signature == signature).count();
        self.count(&format!("violations[{}]", signature), 1);
        if same < 3 && self.violations.len() < MAX_VIOLATIONS_KEPT {
            self.violations.push(Violation {
                signature,
                detail,
                replay,
            });
        }
    }
    pub fn inconclusive(&mut self, why: impl Into<String>) {
        let why = why.into();
        if self.inconclusive.len() < 20 && !self.inconclusive.contains(&why) {
            self.inconclusive.push(why);
        }
    }

    pub fn to_json(&self) -> J {
        json!({
            "evaluations": self.evaluations,
            "samples": self.samples,
            "violations": self.violations.iter().map(|v| json!({
                "signature": v.signature, "detail": v.detail, "replay": v.replay})).collect::<Vec<_>>(),
            "inconclusive": self.inconclusive,
            "counters": self.counters,
            "maxima": self.maxima,
            "sets": self.sets.iter().map(|(k, v)| (k.clone(), J::from(v.iter().cloned().collect::<Vec<_>>()))).collect::<Map<String, J>>(),
        })
    }

    pub fn merge_json(&mut self, j: &J) {
        self.evaluations += j["evaluations"].as_u64().unwrap_or(0);
        if let Some(xs) = j["samples"].as_array() {
            for s in xs {
                // interleave samples from different shards
                if self.samples.len() < MAX_SAMPLES {
                    self.samples.push(s.clone());
                }
            }
        }
        if let Some(xs) = j["violations"].as_array() {
            for v in xs {
                if self.violations.len() < MAX_VIOLATIONS_KEPT * 4 {
                    self.violations.push(Violation {
                        signature: v["signature"].as_str().unwrap_or("?").to_string(),
                        detail: v["detail"].as_str().unwrap_or("").to_string(),
                        replay: v["replay"].clone(),
                    });
                }
            }
        }
        if let Some(xs) = j["inconclusive"].as_array() {
            for s in xs {
                self.inconclusive(s.as_str().unwrap_or("?"));
            }
        }
        if let Some(m) = j["counters"].as_object() {
            for (k, v) in m {
                self.count(k, v.as_u64().unwrap_or(0));
            }
        }
        if let Some(m) = j["maxima"].as_object() {
            for (k, v) in m {
                self.max(k, v.as_u64().unwrap_or(0));
            }
        }
        if let Some(m) = j["sets"].as_object() {
            for (k, v) in m {
                if let Some(xs) = v.as_array() {
                    for x in xs {
                        self.seen(k, x.as_str().unwrap_or("?"));
                    }
                }
            }
        }
    }
}

pub fn hex(b: &[u8]) -> String {
    let mut s = String::with_capacity(b.len() * 2);
    for x in b {
        s.push_str(&format!("{:02x}", x));
    }
    s
}

pub fn unhex(s: &str) -> Vec<u8> {
    (0..s.len() / 2)
        .map(|i| u8::from_str_radix(&s[2 * i..2 * i + 2], 16).unwrap_or(0))
        .collect()
}

pub fn hex_trunc(b: &[u8], max: usize) -> String {
    if b.len() <= max {
        hex(b)
    } else {
        format!("{}…(+{} bytes)", hex(&b[..max]), b.len() - max)
    }
}
